#!/bin/bash
# Regenerates evidence/<id>.json for every check (quick tier) against /repo as it is, and
# validates the files against the schema. Run on the unchanged tree before committing evidence.
cd "$(dirname "$0")/.." || exit 2
if [ -n "$(git -C /repo status --porcelain --untracked-files=no)" ]; then echo "/repo has uncommitted changes"; exit 2; fi
fail=0
for p in C01 C02 C03 C04 C05 C06 C07 C08 C09 C10 C11 C12 C13 C14 C15 C16 C17 C18 C19 C20; do
  VERIF_SEED=${VERIF_SEED:-1} bash scripts/check.sh $p quick > work/regen-$p.log 2>&1; rc=$?
  echo "$p rc=$rc $(grep -m1 "^$p quick" work/regen-$p.log | cut -c1-160)"
  [ $rc -ne 0 ] && fail=1
done
python3-vt - <<'PY' || fail=1
import json, jsonschema, glob, sys
sch = json.load(open('/root/.vp/EVIDENCE.schema.json'))
bad = 0
for f in sorted(glob.glob('evidence/C*.json')):
    e = json.load(open(f))
    try:
        jsonschema.validate(e, sch)
    except Exception as ex:
        print("INVALID", f, str(ex)[:200]); bad = 1
    if e.get('violations', 0) != 0:
        print("evidence records violations:", f); bad = 1
print("evidence files valid" if not bad else "evidence problems")
sys.exit(bad)
PY
exit $fail
