#!/bin/bash
# usage: scripts/check.sh <property id> [quick|thorough]
# Rebuilds the harness against /repo's current working tree (hooks on) and runs
# the check for one property. Exit 0 = held on everything explored, 1 = violation
# (a line "VIOLATION property=<id> replay=<path>" is printed), 2 = broken/inconclusive.
id="$1"; tier="${2:-${VERIF_TIER:-quick}}"
V="$(cd "$(dirname "$0")/.." && pwd)"
cd "$V" || exit 2
export GOFLAGS=-mod=mod GOPROXY=off VERIF_DIR="$V"
unset GOSUMDB GOTOOLCHAIN
mkdir -p bin evidence replays
if ! cmp -s hooks/verif_hooks.go /repo/verif_hooks.go; then
  echo "WARNING: /repo/verif_hooks.go differs from $V/hooks/verif_hooks.go (observation hooks changed)" >&2
fi
bin="$V/bin/rv-$id-$$"
if ! (cd harness && go build -tags verif -o "$bin" ./cmd/rv) ; then
  echo "BUILD FAILED for $id (harness against /repo working tree)"; exit 2
fi
trap 'rm -f "$bin"' EXIT
case "$id" in
  C12) "$bin" quorum -tier "$tier" ;;
  C13) "$bin" confchange -tier "$tier" ;;
  C18) "$bin" logmodel -tier "$tier" ;;
  C19) "$bin" determinism -tier "$tier" ;;
  C*)  "$bin" sim -prop "$id" -tier "$tier" ;;
  *) echo "unknown property $id"; exit 2 ;;
esac
rc=$?
exit $rc
