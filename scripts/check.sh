#!/bin/bash
# usage: scripts/check.sh <property id> [quick|thorough]
# Rebuilds the harness against /repo's current working tree (hooks on) and runs
# the check for one property. Exit 0 = held on everything explored, 1 = violation
# (a line "VIOLATION property=<id> replay=<path>" is printed), 2 = broken/inconclusive.
id="$1"; tier="${2:-${VERIF_TIER:-quick}}"
V="$(cd "$(dirname "$0")/.." && pwd)"
cd "$V" || exit 2
export GOFLAGS=-mod=mod GOPROXY=off VERIF_DIR="$V"
unset GOSUMDB GOTOOLCHAIN
mkdir -p bin evidence replays
if ! cmp -s hooks/verif_hooks.go /repo/verif_hooks.go; then
  echo "WARNING: /repo/verif_hooks.go differs from $V/hooks/verif_hooks.go (observation hooks changed)" >&2
fi
bin="$V/bin/rv-$id-$$"
if ! (cd harness && go build -tags verif -o "$bin" ./cmd/rv) ; then
  echo "BUILD FAILED for $id (harness against /repo working tree)"; exit 2
fi
trap 'rm -f "$bin"' EXIT
case "$id" in
  C12) "$bin" quorum -tier "$tier" ;;
  C13) "$bin" confchange -tier "$tier" ;;
  C18) "$bin" logmodel -tier "$tier" ;;
  C19) "$bin" determinism -tier "$tier" ;;
  C*)  "$bin" sim -prop "$id" -tier "$tier" ;;
  *) echo "unknown property $id"; exit 2 ;;
esac
rc=$?
# Supplementary (thorough tier of C14/C19): the goroutine-based Node API under the Go race
# detector. A data race is reported in the evidence, not as a violation; a panic or diverging
# committed sequences in that workload is a violation of C14.
if [ "$tier" = thorough ] && { [ "$id" = C14 ] || [ "$id" = C19 ]; } && [ $rc -eq 0 ]; then
  mkdir -p work; rm -f work/race-$id.* work/racewl-$id.log
  (cd harness && GORACE="halt_on_error=0 exitcode=0 log_path=$V/work/race-$id" go test -race -count=6 -timeout 15m ./racewl/ > "$V/work/racewl-$id.log" 2>&1)
  rrc=$?
  nraces=$(cat work/race-$id.* 2>/dev/null | grep -c "WARNING: DATA RACE")
  python3 - "${RV_EVIDENCE_DIR:-$V/evidence}/$id.json" "$rrc" "$nraces" <<'PY'
import json, sys
p, rrc, n = sys.argv[1], int(sys.argv[2]), int(sys.argv[3])
try:
    e = json.load(open(p))
    e["coverage"]["supplementary_node_api_race_workload"] = {"runs": 6, "go_test_exit": rrc, "data_race_reports": n,
        "what": "3 nodes, StartNode, 9 client goroutines (Propose/ReadIndex/Status/ReportUnreachable/TransferLeadership), lossy in-memory transport, go test -race; committed sequences compared"}
    json.dump(e, open(p, "w"), indent=1)
except Exception as ex:
    print("could not annotate evidence:", ex)
PY
  echo "race workload: go test exit=$rrc data-race reports=$nraces"
  if [ $rrc -ne 0 ]; then
    if grep -q "^panic:\|applied .* at position\|^--- FAIL" work/racewl-$id.log; then
      echo "VIOLATION property=C14 replay=$V/work/racewl-$id.log"
      [ "$id" = C14 ] && rc=1
    else
      echo "INCONCLUSIVE: race workload did not run (see work/racewl-$id.log)"
    fi
  fi
fi
exit $rc
