#!/bin/bash
# Build the framework from files on disk only (offline).
set -e
cd "$(dirname "$0")/.."
export GOFLAGS=-mod=mod GOPROXY=off
unset GOSUMDB GOTOOLCHAIN
mkdir -p bin evidence replays
cd harness
go build -tags verif -o ../bin/rv ./cmd/rv
echo "setup ok: $(../bin/rv version 2>/dev/null || true)"
