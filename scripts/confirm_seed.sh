#!/bin/bash
# usage: confirm_seed.sh <patch.diff> <demo_test.go> <pkgdir relative to repo root> <TestName regexp>
# Confirms in a scratch worktree of /repo HEAD: suite passes with the patch, demo fails with it, demo passes without it.
patch="$1"; demo="$2"; pkg="${3:-.}"; run="${4:-ZZSeed}"
export GOFLAGS=-mod=mod GOPROXY=off; unset GOSUMDB GOTOOLCHAIN
wt=/tmp/confirm-$$
git -C /repo worktree add -q --detach "$wt" HEAD || exit 2
trap 'git -C /repo worktree remove --force "$wt" >/dev/null 2>&1' EXIT
cd "$wt"
cp "$demo" "$pkg/zz_seed_demo_test.go"
echo "--- demo WITHOUT patch (must pass)"
go test -vet=off -count=1 -run "$run" "./$pkg" 2>&1 | tail -3
without=${PIPESTATUS[0]}
if ! git apply "$patch" 2>/dev/null; then
  git apply --3way "$patch" || { echo "PATCH DOES NOT APPLY"; exit 3; }
fi
echo "--- suite WITH patch, demo excluded (must pass)"
mv "$pkg/zz_seed_demo_test.go" /tmp/zz_seed_demo_$$.go
go build ./... && go test -vet=off -count=1 ./... 2>&1 | tail -7
suite=${PIPESTATUS[0]}
mv /tmp/zz_seed_demo_$$.go "$pkg/zz_seed_demo_test.go"
echo "--- demo WITH patch (must fail)"
go test -vet=off -count=1 -run "$run" "./$pkg" 2>&1 | tail -6
with=${PIPESTATUS[0]}
echo "RESULT without=$without suite=$suite with=$with"
[ "$without" = 0 ] && [ "$suite" = 0 ] && [ "$with" != 0 ] && echo CONFIRMED
