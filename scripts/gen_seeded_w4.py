#!/usr/bin/env python3
"""Fourth wave: builds /verif/seeded/W4-<prop>-<X>/ from the sub-agents' output under /tmp/w4/<prop>-OUT/<X>
and from the confirmation / detection logs under /tmp/w4/confirm (scripts/confirm_seed.sh, scripts/try_seed2.sh)."""
import json, os, re, shutil, sys
V = os.path.dirname(os.path.dirname(os.path.abspath(__file__)))
DESC = {
 "C04-A": ("raft.go hasUnappliedConfChanges scans (applying, committed] instead of (applied, committed]", "a committed conf change handed to a slow apply thread (AsyncStorageWrites) while the election timer fires; the node's config is two changes behind", "hup-applying (found again independently)"),
 "C04-B": ("rawnode.go MustSync drops the Vote != prevVote clause", "a vote-only HardState change (old leader steps down on a higher-term heartbeat response, then grants a vote in that term), crash right after MsgVoteResp, second candidate of the same term", "mustsync-vote (found again independently)"),
 "C05-A": ("log.go maxAppliableIndex: async apply bound offsetInProgress-1 instead of offset-1", "AsyncStorageWrites, commit index overtakes a queued MsgStorageAppend on a follower, apply thread runs first, crash", "applicable-inprogress (found again independently)"),
 "C05-B": ("raft.go stepCandidate: the own-vote durability gate added by fix b45fe0a additionally requires hasNextOrInProgressUnstableEnts()", "AsyncStorageWrites, >= 3 voters, candidate without unstable entries, quorum of grants before its own MsgStorageAppend completes, crash, re-campaign in the same term", "vote-gate-weakened"),
 "C06-A": ("raft.go handleSnapshot: both MsgAppResp (restored / ignored) merged into one that acknowledges lastIndex()", "ex-leader with an uncommitted tail declines a snapshot (applying > applied or stale), third node down so the bogus ack forms the quorum", "snap-decline-ack-last (found again independently)"),
 "C06-B": ("raft.go sendHeartbeat: commit clamp uses max(Match, PendingSnapshot) for a peer in StateSnapshot", "heartbeat overtakes a lost/slow MsgSnap to a follower holding a stale uncommitted tail", "heartbeat-clamp-pendingsnapshot"),
 "C08-A": ("log.go raftLog.slice: short-read test rewritten as lo+len(ents) < cut-1 (a read short by exactly one entry is not recognised)", "sync mode, finite MaxCommittedSizePerReady, committed span straddling stable/unstable, last stable entry larger than the page, first unstable one small", "slice-short-read-off-by-one"),
 "C08-B": ("raft.go Step: a lower-term MsgStorageAppendResp that carries a snapshot falls through to the regular handler (stableTo without the term filter)", "AsyncStorageWrites, one MsgStorageAppend with snapshot and entries, its response delayed across two term changes, entries overwritten and restored (ABA) with the restoring write still queued", "stale-appendresp-snapshot-fallthrough (ABA)"),
 "C09-A": ("storage.go MemoryStorage.ApplySnapshot keeps the stored entries above the snapshot index", "follower with an uncommitted tail of a deposed leader reaching beyond the snapshot index installs a snapshot", "applysnapshot-keeps-tail"),
 "C09-B": ("raft.go restore(): the ProgressTracker is no longer re-created before confchange.Restore", "snapshot whose ConfState lacks a member the receiver still has (follower lagged behind a RemoveNode and the leader compacted)", "restore-keeps-tracker"),
 "C10-A": ("raft.go appliedTo: auto-leave attempted only when the applied index crosses pendingConfIndex", "leadership transfer pending when the auto-leave change and one more entry are applied; MsgTimeoutNow lost", "autoleave-once (found again independently)"),
 "C10-B": ("raft.go hasUnappliedConfChanges uses applying instead of applied", "election timeout between hand-out of a committed conf change and its apply acknowledgement", "hup-applying (found again independently)"),
 "C11-A": ("raft.go releasePendingReadIndexMessages answers the queued requests with the local commit index directly instead of starting a heartbeat round", "new leader whose own-term acks were sent before a competing leader committed; queued ReadIndex released by the delayed acks", "pending-readindex-released-without-round"),
 "C11-B": ("tracker.IsSingleton checks only len(Voters[0]) == 1", "leader in joint (1)&&(1 2 3) partitioned from the old majority answers ReadIndex alone", "singleton-joint (variant)"),
 "C15-A": ("raft.go hasUnappliedConfChanges scans (applied, lastIndex] instead of (applied, committed]", "uncommitted ConfChange on a majority's log tail after the leader crashed: the up-to-date nodes never campaign", "hup-scans-uncommitted"),
 "C15-B": ("raft.go maybeSendSnapshot: on ErrSnapshotTemporarilyUnavailable the follower is parked in StateSnapshot although no MsgSnap is sent", "follower that needs a snapshot and a Storage.Snapshot() that is temporarily unavailable once", "snapshot-unavailable-parks-follower"),
 "C16-A": ("raft.go increaseUncommittedSize charges only EntryNormal payloads", "stalled quorum, quota filled by normal proposals, then conf-change proposals with a payload (Context)", "uncommitted-size-skips-confchange"),
 "C16-B": ("raft.go Config.validate silently raises MaxInflightBytes to MaxSizePerMsg instead of rejecting MaxInflightBytes < MaxSizePerMsg", "finite MaxInflightBytes below MaxSizePerMsg (e.g. noLimit), follower that stops acknowledging", "validate-raises-inflightbytes"),
 "C20-A": ("log.go raftLog.slice: short-read guard removed", "small MaxSizePerMsg, persisted small entry followed by an oversized one, newer small proposals unstable", "slice-short-read (found again independently)"),
 "C20-B": ("rawnode.go acceptReady (async): r.msgs reset with msgs[:0] instead of nil, so the next send overwrites a Ready.Messages slice already handed out", "AsyncStorageWrites follower forwarding two proposals, first Ready's messages still queued for the transport", "ready-messages-alias"),
}
C = "/tmp/w4/confirm"
rp = os.path.join(V, "scripts", "seed_results.json")
results = json.load(open(rp))
rows = []
for sid, (what, needs, family) in sorted(DESC.items()):
    c, x = sid.split("-")
    src = f"/tmp/w4/{c}-OUT/{x}"
    wid = "W4-" + sid
    d = os.path.join(V, "seeded", wid)
    conf = open(f"{C}/{sid}.confirm").read() if os.path.exists(f"{C}/{sid}.confirm") else ""
    if "CONFIRMED" not in conf:
        print("not confirmed:", sid, re.findall(r"RESULT.*", conf)); continue
    os.makedirs(d, exist_ok=True)
    shutil.copy(src + "/patch.diff", d + "/patch.diff")
    shutil.copy(src + "/demo_test.go", d + "/demo_test.go")
    if os.path.exists(src + "/NOTES.md"):
        shutil.copy(src + "/NOTES.md", d + "/NOTES.md")
    det = {}
    tr = open(f"{C}/{sid}.try").read() if os.path.exists(f"{C}/{sid}.try") else ""
    for m in re.finditer(r"check (C\d\d) quick: rc=(\d+) \(\d+s\) \[(?:violations=\d+ \(in (\d+) worlds\))?\][ \t]*(.*)", tr):
        p, rc, nw, line = m.groups()
        first = re.sub(r"^VIOLATION property=\S+ replay=\S+\s*", "", line).strip()
        det[p + "/quick"] = {"caught": rc == "1", "violating_worlds": int(nw) if nw else None, "first_violation": first[:300]}
    if not det:
        print("no detection data:", sid); continue
    if sid in ("C05-B", "C09-A", "C09-B", "C20-B"):
        for k, v in det.items():
            if not (sid == "C05-B" and k.startswith("C02")) and not (sid == "C09-B" and k.startswith("C14")):
                v["worlds_run"] = 1600
                v["note"] = "re-run (first 1600 worlds of the quick tier) after the oracle added because of this change; the first run (4800 worlds, earlier oracles) did not catch it" if v["caught"] else "first 1600 worlds of the quick tier, with the oracles added in this wave"
    results[wid] = det
    meta = {"id": wid, "breaks_property": c, "family": family, "change": what, "needs_to_manifest": needs,
            "demonstration": {"file": "demo_test.go", "package_dir": ".", "run": "GOFLAGS=-mod=mod GOPROXY=off go test -vet=off -count=1 -run ZZSeed ."},
            "confirmed": f"scripts/confirm_seed.sh seeded/{wid}/patch.diff seeded/{wid}/demo_test.go . ZZSeed -> " + (re.findall(r"RESULT.*", conf) or [""])[0] + " (demo passes without the patch, complete unedited suite passes with it, demo fails with it)",
            "origin": "fourth wave: an independent sub-agent given only the property text, its own scratch worktree and the list of changes already used for that property",
            "detection": det}
    json.dump(meta, open(d + "/meta.json", "w"), indent=1)
    caught = [k for k, v in det.items() if v["caught"]]
    rows.append(f"| {wid} | {c} | {family} | " + ("; ".join(f"{k.replace('/', ' ')} ({det[k]['violating_worlds']} worlds)" if det[k]['violating_worlds'] is not None else k.replace('/', ' ') for k in caught) or "not caught") + (("; missed by " + ", ".join(k.replace('/', ' ') for k, v in det.items() if not v["caught"])) if any(not v["caught"] for v in det.values()) else "") + " |")
json.dump(results, open(rp, "w"), indent=1)
print("\n".join(rows))
