#!/usr/bin/env python3
"""Builds /verif/seeded/<id>/ (patch.diff, demo_test.go, meta.json) from the sub-agents' output
under /tmp/seed/Cxx/OUT and from the detection results recorded in scripts/seed_results.json."""
import json, os, shutil, sys

V = os.path.dirname(os.path.dirname(os.path.abspath(__file__)))
SRC = "/tmp/seedout"

DESC = {
 "C01-A": ("log.go raftLog.slice: the early return for a size-truncated read from Storage is removed; a size-limited query that crosses the stable/unstable boundary returns entries with a hole", "a finite MaxCommittedSizePerReady or MaxSizePerMsg, a large stable entry followed by a small unstable one, pagination lagging behind", "slice-short-read"),
 "C01-B": ("raft.go hasUnappliedConfChanges scans (applying, committed] instead of (applied, committed]: a node may campaign while committed configuration changes are handed out but not yet applied", "a Ready/MsgStorageApply outstanding while the election timer fires; for the end-to-end consequence two membership changes of lag and a partition", "hup-applying"),
 "C02-A": ("same change as C01-B (hasUnappliedConfChanges uses applying)", "see C01-B", "hup-applying"),
 "C02-B": ("rawnode.go: with AsyncStorageWrites, msgsAfterAppend are put straight into Ready.Messages when the Ready writes nothing and no entry/snapshot append is in flight; a queued HardState-only write (a vote) is missed", "async storage writes, a duplicate MsgVote while the vote's write is still queued, crash before the write", "after-append-bypass"),
 "C03-A": ("same change as C01-A (raftLog.slice short-read guard removed)", "see C01-A; here observed through a MsgApp with a hole", "slice-short-read"),
 "C03-B": ("log_unstable.go truncateAndAppend: keep := u.entries[:n] instead of the full-slice expression, so the append writes in place into the array that an in-flight MsgStorageAppend.Entries still references", "an un-executed storage write of >= 2 entries, a later-term append conflicting strictly inside that tail, (crash between the two writes for the durable effect)", "unstable-alias"),
 "C04-A": ("raft.go vote handler: the up-to-date check is skipped when the request carries the campaignTransfer context", "a delayed MsgTimeoutNow: the old leader stays leader, commits, then the stale transferee campaigns with a shorter log", "transfer-skips-uptodate"),
 "C04-B": ("same change as C01-B", "see C01-B", "hup-applying"),
 "C05-A": ("rawnode.go MustSync ignores a change of Vote", "a node that already knows term T grants its vote in T (MustSync=false), crashes before the unsynced hard state reaches the disk, votes again in T", "mustsync-vote"),
 "C05-B": ("rawnode.go: a Ready with nothing to write emits no MsgStorageAppend and sends msgsAfterAppend at once, overtaking earlier queued MsgStorageAppends", "async storage writes with a slow append thread and a heartbeat/empty append round", "after-append-bypass"),
 "C06-A": ("same family as C05-B (responses bypass the append thread when the current Ready has nothing to write)", "see C05-B", "after-append-bypass"),
 "C06-B": ("raft.go stepLeader: MsgSnapStatus success calls pr.MaybeUpdate(pr.PendingSnapshot), so ReportSnapshot(Finish) counts as an acknowledgement", "a heartbeat overtaking the in-flight snapshot to a follower with a stale tail", "snapstatus-match"),
 "C07-A": ("same change as C05-A (MustSync ignores Vote)", "see C05-A", "mustsync-vote"),
 "C07-B": ("rawnode.go: 'append thread idle' helper lets queued responses bypass the append thread; a vote's HardState-only write leaves no trace in the unstable log and is missed", "async storage writes, duplicate MsgVote from the same candidate while the vote write is queued, crash", "after-append-bypass"),
 "C08-A": ("same change as C01-A", "see C01-A", "slice-short-read"),
 "C08-B": ("log.go maxAppliableIndex uses unstable.offsetInProgress-1 instead of unstable.offset-1 for the async apply bound", "async storage writes, entries committed while their local append is in flight, a second Ready before MsgStorageAppendResp", "applicable-inprogress"),
 "C09-A": ("raft.go handleSnapshot: the reply to a snapshot that was not installed acknowledges lastIndex instead of committed", "a follower with a stale uncommitted tail that declines a snapshot above its commit index", "snap-decline-ack-last"),
 "C09-B": ("log.go nextCommittedEnts: the pending-snapshot gate uses hasNextUnstableSnapshot instead of hasNextOrInProgressSnapshot", "async storage writes: accepted snapshot still with the append thread when another Ready is taken", "apply-gate-snapshot"),
 "C10-A": ("raft.go stepLeader MsgProp: pendingConfIndex = lastIndex+1 instead of lastIndex+i+1 (batch offset dropped)", "a batched proposal [normal, confchange] and a second conf change proposed once only the normal entry is applied", "pendingconf-batch"),
 "C10-B": ("tracker.IsSingleton accepts a joint configuration whose incoming voter is contained in the outgoing set", "a leader in (1)&&(1 2 3) partitioned from the old majority serves ReadIndex alone", "singleton-joint"),
 "C11-A": ("raft.reset keeps readOnly.acks (a reset() that only truncates the queue)", "the same node leads twice with reads both times, >= 5 voters, a partition with a competing election", "readonly-acks-kept"),
 "C11-B": ("readOnly.maybeAdvance combines the two majorities of a joint configuration with max instead of min", "reads while joint, partition that leaves the leader with a majority of one set only", "readonly-joint-max"),
 "C12-A": ("tracker.TallyVotes shortcut for non-joint configurations derives Lost only from rejected >= q", "even voter count with exactly n/2 rejections and an answer outstanding: Pending instead of Lost", "tally-shortcut"),
 "C12-B": ("tracker.IsSingleton drops the len(Voters[1]) == 0 guard", "see C10-B", "singleton-joint"),
 "C13-A": ("confchange.Changer.apply: the 'removed all voters' guard looks at Voters.IDs() (both halves) instead of the incoming half", "a joint change that removes or demotes every voter", "joint-zero-voters"),
 "C13-B": ("tracker.ProgressTracker.ConfState returns &p.AutoLeave instead of a copy", "a ConfState held by the application across a later change that flips AutoLeave", "confstate-alias"),
 "C14-A": ("raft.go promotable uses hasNextUnstableSnapshot instead of hasNextOrInProgressSnapshot", "a follower whose election timer fires between the Ready carrying a snapshot and its Advance", "promotable-snapshot"),
 "C14-B": ("same change as C01-B", "see C01-B (here: the node removes itself, is elected anyway, becomeLeader dereferences a nil Progress)", "hup-applying"),
 "C15-A": ("raft.go appliedTo: the automatic leave-joint proposal is only attempted while the applied index crosses pendingConfIndex", "the proposal is dropped once (leadership transfer pending) and one more entry is applied before the transfer aborts", "autoleave-once"),
 "C15-B": ("raft.go Step, lower-term MsgStorageAppendResp: 'else if' makes the snapshot acknowledgement conditional on Index == 0", "async storage writes, one MsgStorageAppend carrying both a snapshot and entries, a term change before its response returns", "stale-appendresp-snapshot"),
 "C16-A": ("confchange initProgress builds Inflights with maxBytes 0", "a node added by a configuration change while the leader stays leader, MaxInflightBytes set", "inflight-bytes-added-node"),
 "C16-B": ("raft.go MsgStorageApplyResp: reduceUncommittedSize is fed the encoded size instead of the payload size", "partial commit followed by a stall with MaxUncommittedEntriesSize set", "uncommitted-release-too-much"),
 "C17-A": ("raft.go Step preamble: the exemption for a granted higher-term MsgPreVoteResp additionally requires StatePreCandidate", "a delayed pre-vote grant reaching a node that already left the pre-candidate state", "prevoteresp-bumps-term"),
 "C17-B": ("raft.go stepLeader: pr.RecentActive = true hoisted above the per-peer switch, so MsgUnreachable/MsgSnapStatus/MsgTransferLeader also mark the peer active", "an isolated CheckQuorum leader whose transport reports its peers unreachable", "recentactive-hoisted"),
 "C18-A": ("same change as C01-A", "see C01-A", "slice-short-read"),
 "C18-B": ("log.go raftLog.term drops the i > lastIndex() check", "a follower whose unstable tail was truncated below what Storage still holds", "term-beyond-last"),
 "C19-A": ("tracker.Visit sorts with the comparator int(a.id-b.id)", "node ids spread over the whole uint64 range", "visit-comparator"),
 "C19-B": ("raft.go sendMsgReadIndexResponse sends the read heartbeat to voters by ranging over an unsorted map", "ReadIndex on a leader with >= 2 voting peers", "readindex-map-order"),
 "C20-A": ("raft.go leader MsgProp handler: the per-entry cc variable is hoisted out of the loop, so normal entries that follow a conf change in one batch are emptied", "a batched proposal mixing a conf change with normal entries", "prop-batch-cc-hoisted"),
 "C20-B": ("same change as C01-A", "see C01-A (here: a MsgApp with a hole, follower stores entries by position)", "slice-short-read"),
}

results = {}
rp = os.path.join(V, "scripts", "seed_results.json")
if os.path.exists(rp):
    results = json.load(open(rp))

out = os.path.join(V, "seeded")
os.makedirs(out, exist_ok=True)
n = 0
for sid, (what, needs, family) in sorted(DESC.items()):
    c, v = sid.split("-")
    src = os.path.join(SRC, c)
    d = os.path.join(out, sid)
    if os.path.exists(os.path.join(src, v + ".patch.diff")):
        os.makedirs(d, exist_ok=True)
        shutil.copy(os.path.join(src, v + ".patch.diff"), os.path.join(d, "patch.diff"))
        shutil.copy(os.path.join(src, v + "_demo_test.go"), os.path.join(d, "demo_test.go"))
    elif not os.path.exists(d):
        print("missing source for", sid); continue
    pkg = "."
    for l in open(os.path.join(d, "demo_test.go")):
        if l.startswith("package "):
            p = l.split()[1]
            pkg = "." if p in ("raft", "raft_test") else p
            break
    meta = {
        "id": sid,
        "breaks_property": c,
        "family": family,
        "change": what,
        "needs_to_manifest": needs,
        "demonstration": {"file": "demo_test.go", "package_dir": pkg, "run": "GOFLAGS=-mod=mod GOPROXY=off go test -vet=off -count=1 -run ZZSeed ./" + pkg},
        "confirmed": "scripts/confirm_seed.sh seeded/%s/patch.diff seeded/%s/demo_test.go %s ZZSeed  -> in a scratch worktree of /repo HEAD: demo passes without the patch, the complete unedited suite passes with it, demo fails with it" % (sid, sid, pkg),
        "origin": "written by an independent sub-agent that was given only the property text and a scratch worktree",
        "detection": results.get(sid, {}),
    }
    json.dump(meta, open(os.path.join(d, "meta.json"), "w"), indent=1)
    n += 1
print("seeded entries:", n)

# ---- second wave (agents were told which changes had already been used)
DESC2 = {
 "W2-C01-A": ("C01", "raft.go reset(): Progress is reset field by field in place and Match is forgotten, so it survives term changes", "a leader whose follower acked uncommitted entries, a short-lived other leader overwriting that follower's tail, the old leader winning again", "reset-keeps-match"),
 "W2-C01-B": ("C01", "raft.go loadState restores HardState.Vote only if the voted-for peer is in the progress map (or the map is empty)", "a vote for a peer whose membership is only in the log, not in the ConfState the voter restarts from; restart between two same-term vote requests", "loadstate-drops-vote"),
 "W2-C02-A": ("C02", "rawnode.go hardStateChanged() compares only Term and Commit: a vote granted without a term change is never handed out for persistence", "a voter that reached term T unvoted (e.g. through a pre-vote rejection), votes, restarts, votes again", "hardstate-ignores-vote"),
 "W2-C02-B": ("C02", "raft.go Step: the term-bump exemption for granted MsgPreVoteResp is widened to granted MsgVoteResp", "async candidate loses two non-durable terms in a crash, campaigns for a lower term, a stale grant for the lost higher term is counted", "voteresp-exempt"),
 "W2-C03-A": ("C03", "raft.go lower-term MsgStorageAppendResp is honoured via stableTo when lead == None", "async storage writes, an acknowledgement delayed across three term changes while the restoring write is still queued", "stale-ack-when-leaderless"),
 "W2-C03-B": ("C03", "log_unstable.go stableSnapTo: check becomes i <= snapshot.Index, an ack for snapshot A discards a newer pending snapshot B", "a second, newer snapshot arrives between Ready and Advance (or while the append thread lags)", "stablesnapto"),
 "W2-C04-A": ("C04", "raft.go stepLeader MsgProp: alreadyPending compares pendingConfIndex with committed instead of applied", "a leader whose apply lags its commit index accepts a second ConfChange while the first is committed but unapplied", "pendingconf-vs-committed"),
 "W2-C04-B": ("C04", "raft.go MsgVote: a repeat vote request (r.Vote == m.From) is granted without re-running isUpToDate", "async candidate advertises in-memory entries, gets the vote, crashes before anything is written, re-campaigns for the same term with a shorter log", "repeat-vote-skips-uptodate"),
 "W2-C05-A": ("C05", "log_unstable.go truncateAndAppend: the in-progress marker is clamped to the last new index instead of the first", "an in-flight unstable tail truncated and replaced by >= 2 entries after a leader change", "inprogress-clamp"),
 "W2-C05-B": ("C05", "raft.go handleAppendEntries: the MsgAppResp{Index: committed} for a stale MsgApp is appended to r.msgs directly, bypassing send()", "async storage writes with the append thread behind and a duplicated/stale MsgApp below the commit index", "ack-bypasses-send"),
 "W2-C06-A": ("C06", "raft.go reset(): reuse Progress/Inflights via ResetState and forget to zero Match", "see W2-C01-A", "reset-keeps-match"),
 "W2-C06-B": ("C06", "raft.go stepFollower MsgReadIndexResp: commitTo(min(readIndex, lastIndex()))", "a deposed leader with a stale uncommitted tail follows the new leader through a heartbeat and issues ReadIndex while appends are stalled", "readindexresp-commits"),
 "W2-C08-A": ("C08", "log_unstable.go stableSnapTo generalised the wrong way round (i <= snapshot.Index)", "two overlapping snapshots on a follower", "stablesnapto"),
 "W2-C08-B": ("C08", "raft.go newRaft: if c.Applied > raftlog.firstIndex() instead of > 0", "restart with Applied exactly one past the snapshot index", "applied-off-by-one"),
 "W2-C09-A": ("C09", "raft.go restore(): the stale-snapshot guard compares with applied instead of committed", "a late older snapshot delivered while a newer accepted snapshot is still unstable", "restore-guard-applied"),
 "W2-C09-B": ("C09", "log_unstable.go stableSnapTo rewritten as a guard clause with the comparison inverted", "snapshot 15 being written, snapshot 20 accepted meanwhile, then the write of 15 acknowledged", "stablesnapto"),
 "W2-C14-A": ("C14", "raft.go hup: hasUnappliedConfChanges() runs before the promotable() check", "Campaign()/MsgTimeoutNow while a restored snapshot is not yet acknowledged", "hup-guard-order"),
 "W2-C14-B": ("C14", "log_unstable.go stableSnapTo uses < instead of ==", "see W2-C09-B", "stablesnapto"),
 "W2-C15-A": ("C15", "raft.go tickElection: early return for !promotable() also skips electionElapsed++", "a learner (or node with a pending snapshot) under CheckQuorum never lets its lease expire and ignores every MsgVote", "lease-never-expires"),
 "W2-C15-B": ("C15", "raft.go handleAppendEntries: a non-empty MsgApp entirely below the commit index is dropped instead of acknowledged", "a leader whose Match for a follower is stale probes from Match+1 forever", "drop-append-below-commit"),
 "W2-C18-A": ("C18", "storage.go MemoryStorage.ApplySnapshot: msIndex >= snapIndex became msIndex > snapIndex", "re-installing the snapshot the storage already holds after entries were appended", "applysnapshot-same-index"),
 "W2-C18-B": ("C18", "log_unstable.go stableSnapTo: the equality check became i < u.offset", "a stale persistence ack for snapshot 10 after snapshot 20 was restored", "stablesnapto"),
 "W2-C20-A": ("C20", "raft.go stepLeader MsgProp loop ranges over entries[first:] but still indexes m.GetEntries()[i]", "a batched MsgProp where normal entries precede a conf change that must be refused", "prop-loop-offset"),
 "W2-C20-B": ("C20", "raft.go appendEntry: a batch exceeding MaxUncommittedEntriesSize has its fitting prefix appended and still returns ErrProposalDropped", "the limit configured, a non-empty uncommitted tail, a batched proposal whose first entries still fit", "partial-append-dropped"),
}
SRC2 = "/tmp/seedout2"
n2 = 0
for sid, (prop, what, needs, family) in sorted(DESC2.items()):
    _, c, v = sid.split("-")
    src = os.path.join(SRC2, c)
    d = os.path.join(out, sid)
    if os.path.exists(os.path.join(src, v + ".patch.diff")):
        os.makedirs(d, exist_ok=True)
        shutil.copy(os.path.join(src, v + ".patch.diff"), os.path.join(d, "patch.diff"))
        shutil.copy(os.path.join(src, v + "_demo_test.go"), os.path.join(d, "demo_test.go"))
    elif not os.path.exists(d):
        print("missing source for", sid); continue
    meta = {
        "id": sid, "breaks_property": prop, "family": family, "change": what, "needs_to_manifest": needs,
        "demonstration": {"file": "demo_test.go", "package_dir": ".", "run": "GOFLAGS=-mod=mod GOPROXY=off go test -vet=off -count=1 -run ZZSeed ."},
        "confirmed": "scripts/confirm_seed.sh seeded/%s/patch.diff seeded/%s/demo_test.go . ZZSeed -> demo passes without the patch, complete unedited suite passes with it (rafttest's wall-clock tests re-run alone when the machine was loaded), demo fails with it" % (sid, sid),
        "origin": "second wave: an independent sub-agent given only the property text, a scratch worktree and the list of changes already used",
        "detection": results.get(sid, {}),
    }
    json.dump(meta, open(os.path.join(d, "meta.json"), "w"), indent=1)
    n2 += 1
print("second-wave entries:", n2)

# ---- third wave (agents were told the families already used by waves 1 and 2)
DESC3 = {
 "W3-C07-A": ("C07", "raft.go Step: a lower-term MsgSnap whose index is above the commit index breaks out of the lower-term case and reaches the state's step function", "a candidate or pre-candidate at term T receiving a delayed MsgSnap of term T' < T: becomeFollower(T') moves the term back and clears the vote", "lower-term-msgsnap"),
 "W3-C07-B": ("C07", "rawnode.go Bootstrap: the 'non-empty Storage' refusal is evaluated after the state reset (becomeFollower(1, None), commit rewritten)", "an application that goes through the StartNode/Bootstrap path on every start; Bootstrap returns its error but term, vote and commit are already gone", "bootstrap-after-reset"),
 "W3-C10-A": ("C10", "confchange.Changer.apply: a change with NodeId 0 ends the loop (break) instead of being skipped (continue)", "a ConfChangeV2 that carries a zero-id change before further changes", "zero-id-break"),
 "W3-C10-B": ("C10", "raftpb ConfChangeV2.EnterJoint: a multi-change batch that only adds/removes learners with the automatic transition is classified as simple", "a batch of >= 2 changes one of which demotes a voter to learner: the simple path refuses or panics ('more than one voter changed')", "enterjoint-learner-batch"),
 "W3-C11-A": ("C11", "raft.go switchToConfig (leader) rebuilds the readOnly bookkeeping keeping the queued requests but not confirmedReads, so read positions restart at 1 within a leadership term", "a read confirmed earlier in the term with a heartbeat response still in flight, a configuration change applied by the leader, a partition with a competing election, a new read, then the delayed response", "readonly-rebuilt"),
 "W3-C11-B": ("C11", "read_only.go maybeAdvance slides the still-unconfirmed requests to the front of the array that the returned (confirmed) slice aliases", "two or more reads outstanding and a quorum that covers only the earlier position(s): the unconfirmed requests are answered, the confirmed ones lost", "readonly-alias"),
 "W3-C12-A": ("C12", "tracker.QuorumActive skips voters that are staged in LearnersNext", "a joint configuration that demotes voters: the outgoing majority is judged without them", "quorumactive-learnersnext"),
 "W3-C12-B": ("C12", "read_only.go recvAck: ro.acks[from] = pos instead of max(ro.acks[from], pos)", "two reads outstanding, the heartbeat response for the older one delivered after (or duplicated after) the newer one from a voter whose ack is needed", "ack-assign"),
 "W3-C13-A": ("C13", "tracker.Config.Clone no longer copies empty maps (returns the same map for an empty set)", "a change applied to a configuration with an empty half/learner set, the input inspected afterwards", "clone-empty-alias"),
 "W3-C13-B": ("C13", "confchange.Changer.apply: a zero NodeId returns nil (all remaining changes dropped, no error)", "a batch with a zero id before other changes", "zero-id-return"),
 "W3-C16-A": ("C16", "raft.go stepLeader MsgUnreachable: the guard becomes != StateProbe, so a follower in StateSnapshot is moved to probing", "ReportUnreachable for a follower while the snapshot sent to it is still pending: MsgApp follows", "unreachable-leaves-snapshot"),
 "W3-C16-B": ("C16", "tracker.Progress.SentEntries adds to Inflights before Next advances (keyed by the first index of the batch)", "replication with multi-entry appends: the window is released early by the acknowledgement of the first entry", "inflights-first-index"),
 "W3-C17-A": ("C17", "raft.go MsgCheckQuorum: the loop that clears RecentActive skips learners", "a learner that was active before, is promoted and then goes silent: its stale RecentActive counts towards the next quorum check", "checkquorum-skips-learners"),
 "W3-C17-B": ("C17", "raft.go: a MsgPreVote for the receiver's own term (a 'future pre-vote') is recorded as a real vote", "a delayed MsgPreVote at term T-1 arriving at a node that is at term T with no vote cast", "prevote-recorded"),
 "W3-C19-A": ("C19", "raft.go campaign: vote requests are created in map iteration order", "a configuration with >= 3 peers: the order of Ready.Messages differs from run to run", "campaign-map-order"),
 "W3-C19-B": ("C19", "raft.go switchToConfig ranges over the progress map when probing the new peers", "a configuration change on a leader with >= 3 peers", "switchtoconfig-map-order"),
}
SRC3 = "/tmp/seedout3"
n3 = 0
for sid, (prop, what, needs, family) in sorted(DESC3.items()):
    _, c, v = sid.split("-")
    src = os.path.join(SRC3, c)
    d = os.path.join(out, sid)
    if os.path.exists(os.path.join(src, v + ".patch.diff")):
        os.makedirs(d, exist_ok=True)
        shutil.copy(os.path.join(src, v + ".patch.diff"), os.path.join(d, "patch.diff"))
        shutil.copy(os.path.join(src, v + "_demo_test.go"), os.path.join(d, "demo_test.go"))
    elif not os.path.exists(d):
        print("missing source for", sid); continue
    pkgdir = "confchange" if c == "C13" else "."
    meta = {
        "id": sid, "breaks_property": prop, "family": family, "change": what, "needs_to_manifest": needs,
        "demonstration": {"file": "demo_test.go", "package_dir": pkgdir, "run": "GOFLAGS=-mod=mod GOPROXY=off go test -vet=off -count=1 -run ZZSeed ./" + pkgdir},
        "confirmed": "scripts/confirm_seed.sh seeded/%s/patch.diff seeded/%s/demo_test.go %s ZZSeed -> demo passes without the patch, complete unedited suite passes with it (rafttest's wall-clock tests re-run alone when the machine was loaded), demo fails with it" % (sid, sid, pkgdir),
        "origin": "third wave: an independent sub-agent given only the property text, a scratch worktree and the families of changes already used",
        "detection": results.get(sid, {}),
    }
    json.dump(meta, open(os.path.join(d, "meta.json"), "w"), indent=1)
    n3 += 1
print("third-wave entries:", n3)
