#!/usr/bin/env python3
# one-off patch: record witnesses (samples) for the evidence files
import re
base='/verif/harness/'
def sub(p, old, new, count=1):
    s=open(base+p).read()
    assert old in s, (p, old[:60])
    s=s.replace(old,new,count)
    open(base+p,'w').write(s)

# C01: cross-witness comparison
sub('sim/mon.go', '''		if old.who != ge.who {
			w.Stats["deliveries-cross-witness"]++
		}''', '''		if old.who != ge.who {
			w.Stats["deliveries-cross-witness"]++
			w.sample("C01", func() any {
				return map[string]any{"index": idx, "term": ge.term, "type": ge.typ.String(), "handed_to": []string{old.who, ge.who}, "identical": old.term == ge.term && old.dh == ge.dh}
			})
		}''')
# C02 / C04: election won
sub('sim/mon.go', '''		w.Stats["elections-won"]++
		if len(post.Conf.GetVotersOutgoing()) > 0 {''', '''		w.Stats["elections-won"]++
		w.sample("C02", func() any {
			var gs []uint64
			for v := range g {
				gs = append(gs, v)
			}
			sort.Slice(gs, func(i, j int) bool { return gs[i] < gs[j] })
			return map[string]any{"term": post.Term, "winner": fmt.Sprintf("%d#%d", n.id, n.inc), "grants_delivered_incl_own_durable_vote": gs, "config": confOf(post.Conf).String(), "last": []uint64{post.LastIndex, post.LastTerm}}
		})
		w.sample("C04", func() any {
			var need uint64
			for ct, mx := range m.maxByCterm {
				if ct < post.Term && mx > need {
					need = mx
				}
			}
			return map[string]any{"new_leader": fmt.Sprintf("%d#%d", n.id, n.inc), "term": post.Term, "leader_last_index": post.LastIndex, "highest_index_committed_in_earlier_terms": need, "committed_log_length": m.gLen}
		})
		if len(post.Conf.GetVotersOutgoing()) > 0 {''')
# C03: truncation
sub('sim/exec.go', '''	if mayRewrite && post.LastIndex < oldTop && post.FirstIndex <= oldTop {
		w.Stats["truncations"]++
	}''', '''	if mayRewrite && post.LastIndex < oldTop && post.FirstIndex <= oldTop {
		w.Stats["truncations"]++
		w.sample("C03", func() any {
			return map[string]any{"node": n.id, "on": in.GetType().String(), "from_leader": in.GetFrom(), "leader_term": in.GetTerm(), "log_end_before": oldTop, "log_end_after": post.LastIndex, "commit": post.Commit}
		})
	}''')
# C05: promise checked on the wire
sub('sim/mon.go', '''			w.Stats["acks-on-wire"]++''', '''			w.Stats["acks-on-wire"]++
			if n.cfg.Async {
				w.sample("C05", func() any {
					return map[string]any{"message": "MsgAppResp", "from": n.id, "to": msg.GetTo(), "index": msg.GetIndex(), "term": msg.GetTerm(), "sender_durable_last": d.lastIndex(), "sender_durable_term": dterm, "queued_appends": len(n.appQ), "interface": "async"}
				})
			}''')
# C06: leader commit advance
sub('sim/mon.go', '''		w.Stats["leader-commit-advances"]++
		if len(post.Conf.GetVotersOutgoing()) > 0 {''', '''		w.Stats["leader-commit-advances"]++
		w.sample("C06", func() any {
			var who []uint64
			for _, id := range w.ids {
				if w.diskHolds(id, c, e.Chain) {
					who = append(who, id)
				}
			}
			return map[string]any{"leader": n.id, "term": post.Term, "commit_from": pre.Commit, "commit_to": c, "entry_term": e.Term, "durable_on": who, "config": confOf(post.Conf).String(), "call": kind}
		})
		if len(post.Conf.GetVotersOutgoing()) > 0 {''')
# C07: exposed hard state
sub('sim/mon.go', '''		n.hsExposed++
		w.Stats["hardstates-exposed"]++''', '''		n.hsExposed++
		w.Stats["hardstates-exposed"]++
		if n.hsExposed == 3 {
			w.sample("C07", func() any {
				return map[string]any{"node": n.id, "incarnation": n.inc, "third_exposed_hard_state": map[string]uint64{"term": hs.GetTerm(), "vote": hs.GetVote(), "commit": hs.GetCommit()}, "durable_at_start_term": n.startTerm}
			})
		}''')
# C08: batch
sub('sim/mon.go', '''		w.Stats["apply-batches"]++
	}''', '''		w.Stats["apply-batches"]++
		if len(committed) > 1 || n.inc > 1 {
			w.sample("C08", func() any {
				return map[string]any{"node": n.id, "incarnation": n.inc, "batch": []uint64{committed[0].GetIndex(), committed[len(committed)-1].GetIndex()}, "bytes": sz, "max_committed_size": n.cfg.MaxCommittedSize, "commit": n.st.Commit, "async": n.cfg.Async}
			})
		}
	}''')
# C09: snapshot classification
sub('sim/mon2.go', '''	inConf := confOf(md.GetConfState()).Members()[n.id]''', '''	inConf := confOf(md.GetConfState()).Members()[n.id]
	w.sample("C09", func() any {
		return map[string]any{"node": n.id, "snapshot": []uint64{si, st}, "pre_commit": pre.Commit, "pre_last": pre.LastIndex, "point_already_in_log": matched, "node_in_snapshot_config": inConf, "installed": installed, "post_commit": post.Commit}
	})''')
# C10: conf applied
sub('sim/mon.go', '''	w.Stats["conf-"+confShape(got)]++''', '''	w.Stats["conf-"+confShape(got)]++
	w.sample("C10", func() any {
		return map[string]any{"node": n.id, "index": idx, "ApplyConfChange_returned": got.String(), "fold_of_committed_changes": next.String()}
	})''')
# C11: read served
sub('sim/mon.go', '''	w.Stats["reads-served"]++
	if !r.served && r.inc == n.inc {''', '''	w.Stats["reads-served"]++
	w.sample("C11", func() any {
		return map[string]any{"ctx": ctx, "issued_at_node": r.node, "read_index": rs.Index, "max_commit_when_issued": r.maxCommit, "node_role": n.st.Role.String()}
	})
	if !r.served && r.inc == n.inc {''')
# C16: streamed append
sub('sim/mon2.go', '''			w.Stats["stream-appends"]++''', '''			w.Stats["stream-appends"]++
			if len(s.sent) > 1 {
				w.sample("C16", func() any {
					return map[string]any{"leader": n.id, "follower": to, "outstanding_appends": len(s.sent), "max_inflight_msgs": n.cfg.MaxInflight, "max_inflight_bytes": n.cfg.MaxInflightBytes, "entries_in_this_append": len(c.GetEntries()), "payload_bytes": pay, "max_size_per_msg": n.cfg.MaxSizePerMsg}
				})
			}''')
# C17: in-lease request
sub('sim/mon.go', '''			w.Stats["inlease-requests"]++''', '''			w.Stats["inlease-requests"]++
			w.sample("C17", func() any {
				return map[string]any{"node": n.id, "request": in.GetType().String(), "from": in.GetFrom(), "request_term": in.GetTerm(), "own_term": pre.Term, "leader": pre.Lead, "ticks_since_leader_heard": n.ticksSinceLeader, "election_tick": E, "term_after": post.Term, "vote_after": post.Vote}
			})''')
# C20: forwarded proposal appended
sub('sim/mon2.go', '''			if kind != "propose" && kind != "proposecc" {
				w.Stats["forwarded-proposals-appended"]++
			}''', '''			if kind != "propose" && kind != "proposecc" {
				w.Stats["forwarded-proposals-appended"]++
				w.sample("C20", func() any {
					return map[string]any{"leader": n.id, "forwarded_by": in.GetFrom(), "entries": len(appended), "first_index": appended[0].Index, "first_payload": trunc(appended[0].Data)}
				})
			}''')
# C15: heal
sub('sim/heal.go', '''		w.Stats["heal-converged"]++''', '''		w.Stats["heal-converged"]++
		w.sample("C15", func() any {
			st := map[string]int{}
			for k, v := range w.Stats {
				if strings.HasPrefix(k, "heal-start-") {
					st[k] = v
				}
			}
			l := w.topLeader()
			return map[string]any{"start_conditions": st, "election_timeouts_to_converge": et, "leader": l.id, "term": l.st.Term, "log_length": l.st.LastIndex, "config": confOf(l.st.Conf).String()}
		})''')
# generic fallback sample in Result
sub('sim/run.go', '''func (w *World) Result(idx int) *WorldResult {''', '''func (w *World) Result(idx int) *WorldResult {
	if len(w.Samples) == 0 {
		pick := map[string]int{}
		for _, k := range []string{"actions", "delivered", "crashes", "restarts", "elections-won", "leader-commit-advances", "applied", "readys-sync", "readys-async", "confchanges-applied", "snap-restored", "reads-served"} {
			pick[k] = w.Stats[k]
		}
		w.Samples = append(w.Samples, map[string]any{"world_summary": pick, "digest": w.Digest()[:16], "nodes": len(w.ids), "durable_membership": w.Cfg.Durable})
	}''')
print("patched")
