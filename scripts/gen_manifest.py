#!/usr/bin/env python3
"""Regenerates /verif/MANIFEST.json (kept in sync with the checks that exist)."""
import json, os, subprocess

V = os.path.dirname(os.path.dirname(os.path.abspath(__file__)))

def hook_commits():
    try:
        out = subprocess.check_output(["git", "-C", "/repo", "log", "--format=%h %s", "--", "verif_hooks.go"], text=True)
        return [l.split()[0] for l in out.strip().splitlines()]
    except Exception:
        return []

SIM = "monitors over hooked state dumps and API-boundary events of real RawNodes in a seeded hostile discrete-event simulation"
checks = {
 "C01": ("4/C01", "runtime monitor (cross-node agreement of everything handed to applications + application state hashes + snapshot prefixes) over simulated hostile executions",
         "Every entry any node's application is handed (any incarnation, sync and async interface) is compared with the first witness for that index and with the canonical committed log; snapshots are checked as statements about the prefix; application state hashes are compared per index. Sampled executions only: 'held on the worlds listed in the evidence'."),
 "C02": ("4/C02", "runtime monitor (leader-per-term registry, wire-level vote registry, durable-vote registry, independently recomputed joint majorities) over simulated hostile executions",
         "Role transitions, vote grants on the wire, durable hard states and the grants actually delivered during a candidacy are recorded; the majority is recomputed by an independent model. Sampled."),
 "C03": ("4/C03", "runtime monitor (chain-hash log matching map over every log after every call + invariant I2 incl. non-leader log growth without a delivered append) over simulated hostile executions",
         "After every call the touched node's whole logical log is re-read; new or changed entries are checked against a global (index,term)->prefix-hash map; entries may change only when a leader's MsgApp/MsgSnap is delivered. Sampled."),
 "C04": ("4/C04", "runtime monitor (new leader's log vs canonical committed log annotated with committing term; monotone agreement prefix) over simulated hostile executions",
         "At every new leadership the leader's log is compared with everything committed in earlier terms; overwriting an entry of the agreed prefix is flagged. Sampled."),
 "C05": ("4/C05", "runtime monitor (wire hand-over instant vs harness-owned fsync-modelled disk; crash at every contract-permitted sub-step; leadership assumed only after the own vote is durable) over simulated hostile executions",
         "Every vote grant / append acknowledgement / snapshot acknowledgement is compared with the sender's durable state at the instant the contract-following application hands it to the network; crashes cut Readys at every sub-step; all safety monitors stay attached across restarts. Sampled."),
 "C06": ("4/C06", "runtime monitor (leader commit advance vs durable quorum on disks, independently recomputed; follower commit vs canonical log; invariant I1) over simulated hostile executions",
         "Each leader commit advance is checked for own-term entry and a durable quorum in every voter set (recomputed over the harness's disks); followers' commit indexes and prefixes are checked against the canonical committed log. Sampled."),
 "C07": ("4/C07", "runtime monitor (exposed hard-state cursor per incarnation, restart equality with durable state, term floor on sent messages) over simulated hostile executions",
         "Sampled executions; every exposed HardState and every restart is checked."),
 "C08": ("4/C08", "runtime monitor (hand-out cursor per incarnation, commit bound, durability of async batches, snapshot-outstanding flag) over simulated hostile executions",
         "Judged at hand-out time (Ready.CommittedEntries / MsgStorageApply). Sampled."),
 "C09": ("4/C09", "runtime monitor (pre/post comparison around every MsgSnap delivery; wire check of every MsgSnap against committed log, application state and configuration history) over simulated hostile executions",
         "Sampled."),
 "C10": ("4/C10", "runtime monitor (independent fold of committed configuration entries, cross-node agreement, leader-log gate, campaign gate, invariant I3) over simulated hostile executions",
         "ApplyConfChange results are compared with an independent implementation of the configuration algebra folded over the applied log. Sampled."),
 "C11": ("4/C11", "runtime monitor (request registry + causal heartbeat-quorum oracle + wire-fed reference model of the read confirmation state) and porcupine linearizability check of recorded Put/Get histories over simulated hostile executions",
         "Index oracle, production-side quorum/own-term oracle from message causality, and an end-to-end register history per key checked with porcupine v1.3.0. Sampled."),
 "C12": ("4/C12", "reference-model monitor over exhaustively enumerated (ids 1..5) and sampled inputs of the real quorum package and of tracker.ProgressTracker's quorum functions",
         "Exhaustive inside the stated small domain, sampled beyond; decided by comparing the real functions' results with a definition-level model."),
 "C13": ("4/C13", "reference-model monitor over the breadth-first closure of configurations reachable with the real confchange.Changer (ids 1..4/5) plus random walks",
         "Exhaustive closure inside the stated small domain (frontier emptied), sampled walks beyond."),
 "C14": ("4/C14", "runtime monitor (recover() around every call into RawNode/MemoryStorage/NewRawNode) over simulated hostile executions and operation fuzzing",
         "Any panic escaping a call under the usage contract of DESIGN.md section 3 is a violation. Sampled."),
 "C15": ("4/C15", "runtime monitor of bounded progress: fault-free heal suffix after every hostile prefix, convergence conjunction checked within a fixed number of election timeouts (logical ticks)",
         "Liveness restated as bounded progress (120 election timeouts, logical time only). Sampled; a slowdown below the bound is invisible."),
 "C16": ("4/C16", "runtime monitor (wire-derived inflight window per streaming epoch, wire-derived pending-snapshot flag, message sizes, reference uncommitted-size accounting, invariant I5, probing of byte budgets below the message size limit) over simulated hostile executions",
         "Sampled."),
 "C17": ("4/C17", "runtime monitor (pre-vote grants per campaign, term/vote stability on MsgPreVote, harness-side lease clock, quorum-contact clock and reference model of the quorum-check round for CheckQuorum leaders) over simulated hostile executions",
         "Sampled."),
 "C18": ("4/C18", "reference-model monitor over exhaustively enumerated operation sequences (bounded depth, deduplicated by abstract state) and long random sequences against MemoryStorage and the raftLog/unstable view (verif-tagged wrapper)",
         "Exhaustive up to the stated depth over a fixed operation menu, sampled beyond."),
 "C19": ("4/C19", "re-execution monitor: SHA-256 digest over every Ready of a world compared between generation, in-process replay of the recorded actions on fresh nodes, and a run in a different process",
         "Sampled worlds (up to 9 peers)."),
 "C20": ("4/C20", "runtime monitor (proposal registry with unique payloads, per-call leader append diff, per-log duplicate accounting, integrity of Ready.Messages slices held by the application) over simulated hostile executions",
         "Sampled."),
}

props = [json.loads(l)["id"] for l in open(os.path.join(V, "properties.jsonl"))]
m = {
 "version": 1,
 "setup_cmd": "bash scripts/setup.sh",
 "hooks": {
  "guard": "verif (Go build tag)",
  "enable": "go build -tags verif in /verif/harness, whose go.mod replaces go.etcd.io/raft/v3 with /repo (working tree)",
  "baseline_off_cmd": "cd /repo && GOFLAGS=-mod=mod GOPROXY=off go test -vet=off -count=1 -timeout 25m ./...",
  "source_commits": hook_commits(),
  "add_only": True,
 },
 "engines": [
  {"name": "rv sim", "path": "harness/sim", "serves_properties": [p for p in props if p not in ("C12", "C13", "C18", "C19")],
   "kind_free_text": "deterministic discrete-event simulator driving real RawNodes (network, disks with fsync model, crashes, membership changes) with one monitor per property"},
  {"name": "rv quorum", "path": "harness/cmd/rv/quorum.go", "serves_properties": ["C12"], "kind_free_text": "reference-model comparison of the real quorum package"},
  {"name": "rv confchange", "path": "harness/cmd/rv/confchange.go", "serves_properties": ["C13"], "kind_free_text": "closure of the configuration space with the real confchange.Changer vs reference model"},
  {"name": "rv logmodel", "path": "harness/cmd/rv/logmodel.go", "serves_properties": ["C18"], "kind_free_text": "abstract-log model vs MemoryStorage and raftLog/unstable"},
  {"name": "rv determinism", "path": "harness/cmd/rv/determinism.go", "serves_properties": ["C19"], "kind_free_text": "digest comparison of re-executed worlds, in process and across processes"},
 ],
 "checks": [],
 "notes": "All checks: scripts/check.sh <id> <tier> rebuilds harness/cmd/rv with -tags verif against /repo's working tree, runs a fixed PRNG-determined case list (VERIF_SEED), rewrites evidence/<id>.json, prints VIOLATION / KNOWN-FINDING lines. Exit 0 held, 1 violation, 2 broken or inconclusive. Known findings: known_findings.json. Design: DESIGN.md.",
 "not_applicable": [],
}
for p in props:
    if p not in checks:
        m["not_applicable"].append({"property_id": p, "reason": "no check registered yet"})
        continue
    ref, tech, note = checks[p]
    m["checks"].append({
     "property_id": p,
     "quick_cmd": f"bash scripts/check.sh {p} quick",
     "thorough_cmd": f"bash scripts/check.sh {p} thorough",
     "evidence_file": f"/verif/evidence/{p}.json",
     "replay_cmd_template": "bin/rv replay {path}" if p not in ("C12", "C13", "C18") else "cat {path}",
     "engine": "rv sim" if p not in ("C12", "C13", "C18", "C19") else {"C12": "rv quorum", "C13": "rv confchange", "C18": "rv logmodel", "C19": "rv determinism"}[p],
     "level_claimed": {"category": "exploration",
                       "text": "Runtime monitoring of real executions: the property held on every execution explored (counts, coverage and witnesses in the evidence file); nothing is proved. " + note,
                       "design_ref": "DESIGN.md section " + ref},
     "level_note": "Trusted: the harness obeys the usage contract of DESIGN.md section 3; the reference models in harness/model; the verif-tagged read-only hooks; Go's recover(). Not trusted: raft's own quorum/tracker/confchange bookkeeping (re-derived from boundary events).",
     "technique": tech,
    })
json.dump(m, open(os.path.join(V, "MANIFEST.json"), "w"), indent=1)
print("checks:", len(m["checks"]), "not_applicable:", len(m["not_applicable"]))
