#!/bin/bash
# usage: try_seed2.sh <patch.diff> <tier> <prop> [<prop>...]   (env: WORLDS=n overrides the world count)
# Like try_seed.sh but leaves /repo alone: the patch is applied to a scratch worktree and the
# harness is built against it through an alternate go.mod, so other work on /repo can go on.
patch="$(readlink -f "$1")"; tier="$2"; shift 2
export GOFLAGS=-mod=mod GOPROXY=off; unset GOSUMDB GOTOOLCHAIN
wt=/tmp/mutrepo-$$
git -C /repo worktree add -q --detach "$wt" HEAD || exit 2
trap 'git -C /repo worktree remove --force "$wt" >/dev/null 2>&1; rm -rf /tmp/rv-mut-$$ /tmp/mut-$$.mod /tmp/mut-$$.sum /tmp/rv-evidence-seeded-$$' EXIT
( cd "$wt" && { git apply "$patch" 2>/dev/null || git apply --3way "$patch" >/dev/null 2>&1; } ) || { echo "PATCH DOES NOT APPLY"; exit 3; }
sed "s#=> /repo#=> $wt#" /verif/harness/go.mod > /tmp/mut-$$.mod; cp /verif/harness/go.sum /tmp/mut-$$.sum
( cd /verif/harness && go build -modfile=/tmp/mut-$$.mod -tags verif -o /tmp/rv-mut-$$ ./cmd/rv ) || { echo "BUILD FAILED"; exit 2; }
export RV_EVIDENCE_DIR=/tmp/rv-evidence-seeded-$$ VERIF_DIR=/verif
for p in "$@"; do
  t0=$(date +%s)
  case $p in
    C12) sub="quorum -tier $tier";; C13) sub="confchange -tier $tier";; C18) sub="logmodel -tier $tier";; C19) sub="determinism -tier $tier";;
    *) sub="sim -prop $p -tier $tier -replays /tmp/rv-replays-seeded"; [ -n "$WORLDS" ] && sub="$sub -worlds $WORLDS";;
  esac
  out=$(cd /verif && /tmp/rv-mut-$$ $sub 2>&1); rc=$?
  t1=$(date +%s)
  line=$(echo "$out" | grep -m1 -A1 "VIOLATION" | tr '\n' ' ' | cut -c1-330)
  nw=$(echo "$out" | grep -o "violations=[0-9]* (in [0-9]* worlds)" | head -1)
  echo "  check $p $tier: rc=$rc ($((t1-t0))s) [$nw] $line"
done
