#!/bin/bash
# usage: try_seed.sh <patch.diff> <tier> <prop> [<prop>...]
# Applies a seeded change to /repo, runs the given checks, and restores /repo.
patch="$1"; tier="$2"; shift 2
cd /repo || exit 2
if [ -n "$(git status --porcelain --untracked-files=no)" ]; then echo "/repo not clean"; exit 2; fi
if ! git apply "$patch" 2>/dev/null; then git apply --3way "$patch" >/dev/null 2>&1 || { echo "PATCH DOES NOT APPLY"; git checkout -- .; exit 3; }; git reset -q; fi
trap 'git -C /repo checkout -- . ' EXIT
export RV_EVIDENCE_DIR=/tmp/rv-evidence-seeded
for p in "$@"; do
  t0=$(date +%s)
  out=$(cd /verif && VERIF_SEED=${VERIF_SEED:-1} bash scripts/check.sh $p $tier 2>&1)
  rc=$?
  t1=$(date +%s)
  line=$(echo "$out" | grep -m1 -A1 "VIOLATION" | tr '\n' ' ' | cut -c1-330)
  nw=$(echo "$out" | grep -o "violations=[0-9]* (in [0-9]* worlds)" | head -1)
  echo "  check $p $tier: rc=$rc ($((t1-t0))s) [$nw] $line"
  [ $rc = 2 ] && echo "$out" | tail -5 | cut -c1-300
done
