//go:build verif

// Read-only observation hooks for the runtime-verification harness in /verif.
// This file is only compiled with `-tags verif`; nothing in the library calls
// into it and it changes no existing behaviour.

package raft

import (
	"google.golang.org/protobuf/proto"

	pb "go.etcd.io/raft/v3/raftpb"
	"go.etcd.io/raft/v3/tracker"
)

// VerifEntry is a deep copy of one log entry.
type VerifEntry struct {
	Index, Term uint64
	Type        pb.EntryType
	Data        []byte
}

// VerifProgress is a copy of a leader's view of one peer.
type VerifProgress struct {
	Match, Next      uint64
	State            tracker.StateType
	PendingSnapshot  uint64
	RecentActive     bool
	MsgAppFlowPaused bool
	IsLearner        bool
	Paused           bool
	InflightCount    int
	InflightFull     bool
}

// VerifState is a read-only dump of a RawNode's internal state.
type VerifState struct {
	ID, Term, Vote, Lead      uint64
	Role                      StateType
	IsLearner                 bool
	LeadTransferee            uint64
	PendingConfIndex          uint64
	UncommittedSize           uint64
	Commit, Applying, Applied uint64
	FirstIndex, LastIndex     uint64
	BaseTerm, LastTerm        uint64
	UnstableOffset            uint64
	OffsetInProgress          uint64
	UnstableLen               int
	PendingSnapIndex          uint64 // 0 if no unstable snapshot
	PendingSnapTerm           uint64
	PendingSnapInProgress     bool
	ApplyingPaused            bool
	ElectionElapsed           int
	HeartbeatElapsed          int
	RandTimeout               int
	ElectionTimeout           int
	Conf                      *pb.ConfState
	Progress                  map[uint64]VerifProgress
	Votes                     map[uint64]bool
	NMsgs, NMsgsAfter         int
	NReadStates               int
	NUnconfirmedReads         int
	NPendingReadIndex         int
	NStepsOnAdvance           int
}

// VerifState returns a deep, read-only copy of the node's state.
func (rn *RawNode) VerifState() VerifState {
	r := rn.raft
	l := r.raftLog
	fi := l.firstIndex()
	li := l.lastIndex()
	bt, _ := l.term(fi - 1)
	lt, _ := l.term(li)
	s := VerifState{ID: r.id, Term: r.Term, Vote: r.Vote, Lead: r.lead, Role: r.state,
		IsLearner: r.isLearner, LeadTransferee: r.leadTransferee, PendingConfIndex: r.pendingConfIndex,
		UncommittedSize: uint64(r.uncommittedSize),
		Commit:          l.committed, Applying: l.applying, Applied: l.applied,
		FirstIndex: fi, LastIndex: li, BaseTerm: bt, LastTerm: lt,
		UnstableOffset: l.unstable.offset, OffsetInProgress: l.unstable.offsetInProgress,
		UnstableLen: len(l.unstable.entries), ApplyingPaused: l.applyingEntsPaused,
		ElectionElapsed: r.electionElapsed, HeartbeatElapsed: r.heartbeatElapsed,
		RandTimeout: r.randomizedElectionTimeout, ElectionTimeout: r.electionTimeout,
		Conf:  r.trk.ConfState(),
		NMsgs: len(r.msgs), NMsgsAfter: len(r.msgsAfterAppend), NReadStates: len(r.readStates),
		NUnconfirmedReads: len(r.readOnly.unconfirmedReads), NPendingReadIndex: len(r.pendingReadIndexMessages),
		NStepsOnAdvance: len(rn.stepsOnAdvance),
	}
	if sn := l.unstable.snapshot; sn != nil {
		s.PendingSnapIndex = sn.GetMetadata().GetIndex()
		s.PendingSnapTerm = sn.GetMetadata().GetTerm()
		s.PendingSnapInProgress = l.unstable.snapshotInProgress
	}
	s.Progress = make(map[uint64]VerifProgress, len(r.trk.Progress))
	for id, pr := range r.trk.Progress {
		vp := VerifProgress{Match: pr.Match, Next: pr.Next, State: pr.State, PendingSnapshot: pr.PendingSnapshot,
			RecentActive: pr.RecentActive, MsgAppFlowPaused: pr.MsgAppFlowPaused, IsLearner: pr.IsLearner,
			Paused: pr.IsPaused()}
		if pr.Inflights != nil {
			vp.InflightCount = pr.Inflights.Count()
			vp.InflightFull = pr.Inflights.Full()
		}
		s.Progress[id] = vp
	}
	s.Votes = make(map[uint64]bool, len(r.trk.Votes))
	for id, v := range r.trk.Votes {
		s.Votes[id] = v
	}
	return s
}

// VerifEntries returns copies of the logical log entries (stable storage plus
// unstable tail) in [lo, hi], clipped to the available range.
func (rn *RawNode) VerifEntries(lo, hi uint64) []VerifEntry {
	l := rn.raft.raftLog
	if lo < l.firstIndex() {
		lo = l.firstIndex()
	}
	if hi > l.lastIndex() {
		hi = l.lastIndex()
	}
	if lo > hi {
		return nil
	}
	ents, err := l.slice(lo, hi+1, noLimit)
	if err != nil {
		panic(err)
	}
	out := make([]VerifEntry, len(ents))
	for i, e := range ents {
		out[i] = VerifEntry{Index: e.GetIndex(), Term: e.GetTerm(), Type: e.GetType(), Data: append([]byte(nil), e.GetData()...)}
	}
	return out
}

// VerifSetRandomizedElectionTimeout overrides the randomized election timeout
// so that elections driven by Tick are reproducible from a seed.
func (rn *RawNode) VerifSetRandomizedElectionTimeout(v int) { rn.raft.randomizedElectionTimeout = v }

// VerifOutbox returns clones of the pending outbound messages (msgs,
// msgsAfterAppend).
func (rn *RawNode) VerifOutbox() (now []*pb.Message, after []*pb.Message) {
	for _, m := range rn.raft.msgs {
		now = append(now, proto.Clone(m).(*pb.Message))
	}
	for _, m := range rn.raft.msgsAfterAppend {
		after = append(after, proto.Clone(m).(*pb.Message))
	}
	return
}

// VerifLog exposes an unexported raftLog (with its unstable part) so that an
// external model-based driver can call its operations.
type VerifLog struct{ l *raftLog }

// NewVerifLog builds a raftLog over the given storage.
func NewVerifLog(s Storage, maxApplying uint64) *VerifLog {
	return &VerifLog{l: newLogWithSize(s, getLogger(), entryEncodingSize(maxApplying))}
}

func (v *VerifLog) Append(ents ...*pb.Entry) uint64 { return v.l.append(ents...) }
func (v *VerifLog) MaybeAppend(leaderTerm, prevIndex, prevTerm, committed uint64, ents []*pb.Entry) (uint64, bool) {
	return v.l.maybeAppend(logSlice{term: leaderTerm, prev: entryID{term: prevTerm, index: prevIndex}, entries: ents}, committed)
}
func (v *VerifLog) CommitTo(i uint64)                  { v.l.commitTo(i) }
func (v *VerifLog) AppliedTo(i, size uint64)           { v.l.appliedTo(i, entryEncodingSize(size)) }
func (v *VerifLog) NextUnstableEnts() []*pb.Entry      { return v.l.nextUnstableEnts() }
func (v *VerifLog) HasNextUnstableEnts() bool          { return v.l.hasNextUnstableEnts() }
func (v *VerifLog) HasNextOrInProgressUnstable() bool  { return v.l.hasNextOrInProgressUnstableEnts() }
func (v *VerifLog) AcceptUnstable()                    { v.l.acceptUnstable() }
func (v *VerifLog) StableTo(index, term uint64)        { v.l.stableTo(entryID{term: term, index: index}) }
func (v *VerifLog) StableSnapTo(i uint64)              { v.l.stableSnapTo(i) }
func (v *VerifLog) Restore(s *pb.Snapshot)             { v.l.restore(s) }
func (v *VerifLog) NextUnstableSnapshot() *pb.Snapshot { return v.l.nextUnstableSnapshot() }
func (v *VerifLog) HasNextOrInProgressSnapshot() bool  { return v.l.hasNextOrInProgressSnapshot() }
func (v *VerifLog) Term(i uint64) (uint64, error)      { return v.l.term(i) }
func (v *VerifLog) FirstIndex() uint64                 { return v.l.firstIndex() }
func (v *VerifLog) LastIndex() uint64                  { return v.l.lastIndex() }
func (v *VerifLog) LastTerm() uint64                   { return v.l.lastEntryID().term }
func (v *VerifLog) Committed() uint64                  { return v.l.committed }
func (v *VerifLog) Applying() uint64                   { return v.l.applying }
func (v *VerifLog) Applied() uint64                    { return v.l.applied }
func (v *VerifLog) UnstableOffset() uint64             { return v.l.unstable.offset }
func (v *VerifLog) OffsetInProgress() uint64           { return v.l.unstable.offsetInProgress }
func (v *VerifLog) Slice(lo, hi, maxSize uint64) ([]*pb.Entry, error) {
	return v.l.slice(lo, hi, entryEncodingSize(maxSize))
}
func (v *VerifLog) Entries(i, maxSize uint64) ([]*pb.Entry, error) {
	return v.l.entries(i, entryEncodingSize(maxSize))
}
func (v *VerifLog) NextCommittedEnts(allowUnstable bool) []*pb.Entry {
	return v.l.nextCommittedEnts(allowUnstable)
}
func (v *VerifLog) AcceptApplying(i, size uint64, allowUnstable bool) {
	v.l.acceptApplying(i, entryEncodingSize(size), allowUnstable)
}
func (v *VerifLog) FindConflictByTerm(index, term uint64) (uint64, uint64) {
	return v.l.findConflictByTerm(index, term)
}
func (v *VerifLog) IsUpToDate(index, term uint64) bool {
	return v.l.isUpToDate(entryID{term: term, index: index})
}
func (v *VerifLog) MatchTerm(index, term uint64) bool {
	return v.l.matchTerm(entryID{term: term, index: index})
}
func (v *VerifLog) MaybeCommit(index, term uint64) bool {
	return v.l.maybeCommit(entryID{term: term, index: index})
}

// VerifEntsSize is the encoded size raft uses for size limits.
func VerifEntsSize(ents []*pb.Entry) uint64 { return uint64(entsSize(ents)) }

// VerifPayloadsSize is the payload size raft uses for the uncommitted-size limit.
func VerifPayloadsSize(ents []*pb.Entry) uint64 { return uint64(payloadsSize(ents)) }
