// rv — runtime verification driver for etcd-io/raft (see /verif/DESIGN.md).
package main

import (
	"encoding/json"
	"flag"
	"fmt"
	"os"
	"strconv"
	"strings"

	"verif/sim"
)

func usage() {
	fmt.Fprintln(os.Stderr, `usage: rv <command> [flags]
  sim        -prop Cxx -tier quick|thorough     simulator campaign for one property
  child      (internal) one batch of worlds
  world      -prop Cxx -idx N [-v]              run a single world
  replay     <trace.json> [-v] [-until N]       re-execute a recorded action trace
  quorum | confchange | logmodel | determinism  dedicated drivers
  version`)
	os.Exit(2)
}

func envSeed() int64 {
	if s := os.Getenv("VERIF_SEED"); s != "" {
		if v, err := strconv.ParseInt(strings.TrimSpace(s), 10, 64); err == nil {
			return v
		}
	}
	return 1
}

func verifDir() string {
	if d := os.Getenv("VERIF_DIR"); d != "" {
		return d
	}
	return "/verif"
}

// evidenceDir is /verif/evidence unless RV_EVIDENCE_DIR redirects it (used when
// the checks are run against a deliberately broken tree, so that the committed
// evidence of the unchanged tree is not overwritten).
func evidenceDir() string {
	if d := os.Getenv("RV_EVIDENCE_DIR"); d != "" {
		os.MkdirAll(d, 0o755)
		return d
	}
	return verifDir() + "/evidence"
}

type knownFinding struct {
	ID         string   `json:"id"`
	Properties []string `json:"properties"`
	Summary    string   `json:"summary"`
}

var openFindings []knownFinding

func loadKnown() {
	b, err := os.ReadFile(verifDir() + "/known_findings.json")
	if err != nil {
		return
	}
	var kf struct {
		Open []knownFinding `json:"open"`
	}
	if json.Unmarshal(b, &kf) == nil {
		for _, o := range kf.Open {
			sim.KnownFindings[o.ID] = true
		}
		openFindings = kf.Open
	}
}

func main() {
	if len(os.Args) < 2 {
		usage()
	}
	loadKnown()
	cmd, args := os.Args[1], os.Args[2:]
	switch cmd {
	case "version":
		fmt.Println("rv 1")
	case "sim":
		os.Exit(cmdSim(args))
	case "child":
		os.Exit(cmdChild(args))
	case "world":
		os.Exit(cmdWorld(args))
	case "replay":
		os.Exit(cmdReplay(args))
	case "quorum":
		os.Exit(cmdQuorum(args))
	case "confchange":
		os.Exit(cmdConfChange(args))
	case "logmodel":
		os.Exit(cmdLogModel(args))
	case "determinism":
		os.Exit(cmdDeterminism(args))
	default:
		usage()
	}
}

func cmdWorld(args []string) int {
	fs := flag.NewFlagSet("world", flag.ExitOnError)
	prop := fs.String("prop", "C14", "")
	idx := fs.Int("idx", 0, "")
	steps := fs.Int("steps", 2500, "")
	seed := fs.Int64("seed", envSeed(), "")
	verbose := fs.Bool("v", false, "")
	tail := fs.Int("tail", 400, "")
	out := fs.String("trace", "", "write the action trace here")
	fs.Parse(args)
	cfg := sim.GenWorld(*seed, *prop, *idx, *steps)
	w, herr := sim.RunWorld(cfg, *verbose)
	return reportWorld(w, herr, *verbose, *tail, *out, *idx)
}

func reportWorld(w *sim.World, herr string, verbose bool, tail int, out string, idx int) int {
	if herr != "" {
		fmt.Println("HARNESS ERROR:", herr)
		return 2
	}
	if verbose {
		from := max(0, len(w.Log)-tail)
		for _, l := range w.Log[from:] {
			fmt.Println("   ", l)
		}
	}
	cb, _ := json.Marshal(w.Cfg)
	fmt.Printf("cfg: %s\n", cb)
	sb, _ := json.Marshal(w.Stats)
	fmt.Printf("stats: %s\n", sb)
	for _, s := range w.Inconclusive {
		fmt.Println("INCONCLUSIVE:", s)
	}
	if out != "" {
		if err := w.WriteTrace(out, idx); err != nil {
			fmt.Println("trace:", err)
		}
	}
	rc := 0
	for _, v := range w.Viol {
		if v.Known != "" {
			fmt.Printf("KNOWN-FINDING: property=%s %s | %s\n", v.Prop, v.Known, v.Msg)
		} else {
			fmt.Printf("VIOLATION property=%s step=%d also=%v: %s\n", v.Prop, v.Step, v.Also, v.Msg)
			rc = 1
		}
	}
	fmt.Printf("digest %s steps %d\n", w.Digest()[:16], len(w.Trace))
	return rc
}

func cmdReplay(args []string) int {
	fs := flag.NewFlagSet("replay", flag.ExitOnError)
	verbose := fs.Bool("v", false, "")
	tail := fs.Int("tail", 400, "")
	until := fs.Int("until", 0, "")
	fs.Parse(args)
	if fs.NArg() < 1 {
		usage()
	}
	tf, err := sim.ReadTrace(fs.Arg(0))
	if err != nil {
		fmt.Println(err)
		return 2
	}
	w, herr := sim.ReplayWorld(tf, *verbose, *until)
	return reportWorld(w, herr, *verbose, *tail, "", tf.Idx)
}
