package main

import (
	"fmt"

	_ "github.com/anishathalye/porcupine"
	"go.etcd.io/raft/v3"
)

func main() { fmt.Println(raft.None) }
