package main

import (
	"context"
	"encoding/json"
	"flag"
	"fmt"
	"os"
	"os/exec"
	"path/filepath"
	"regexp"
	"runtime"
	"sort"
	"strings"
	"syscall"
	"time"

	"verif/sim"
)

type batchOut struct {
	Worlds       int            `json:"worlds"`
	Stats        map[string]int `json:"stats"`
	PerProfile   map[string]int `json:"per_profile"`
	NontrivSigs  []uint64       `json:"nontriv_sigs"`
	Viol         []violOut      `json:"viol"`
	Inconclusive []string       `json:"inconclusive"`
	NInconcl     int            `json:"n_inconclusive"`
	Samples      []any          `json:"samples"`
	HarnessErrs  []string       `json:"harness_errors"`
	Digests      map[int]string `json:"digests,omitempty"`
	Done         bool           `json:"done"`
}

type violOut struct {
	sim.Violation
	World  int    `json:"world"`
	Replay string `json:"replay"`
}

type tierSize struct{ worlds, steps int }

var tiers = map[string]tierSize{
	"quick":    {4800, 2500},
	"thorough": {48000, 4000},
}

func mergeStats(dst, src map[string]int) {
	for k, v := range src {
		if strings.HasSuffix(k, "-max") {
			if v > dst[k] {
				dst[k] = v
			}
		} else {
			dst[k] += v
		}
	}
}

func cmdChild(args []string) int {
	fs := flag.NewFlagSet("child", flag.ExitOnError)
	prop := fs.String("prop", "", "")
	seed := fs.Int64("seed", 1, "")
	from := fs.Int("from", 0, "")
	stride := fs.Int("stride", 1, "")
	n := fs.Int("n", 0, "")
	steps := fs.Int("steps", 2500, "")
	out := fs.String("out", "", "")
	replays := fs.String("replays", "", "")
	wantDigests := fs.Bool("digests", false, "")
	tier := fs.String("tier", "quick", "")
	fs.Parse(args)
	bo := &batchOut{Stats: map[string]int{}, PerProfile: map[string]int{}}
	if *wantDigests {
		bo.Digests = map[int]string{}
	}
	flush := func() {
		b, _ := json.Marshal(bo)
		tmp := *out + ".tmp"
		os.WriteFile(tmp, b, 0o644)
		os.Rename(tmp, *out)
	}
	for idx := *from; idx < *n; idx += *stride {
		cfg := sim.GenWorld(*seed, *prop, idx, *steps)
		// log the world before running it, so that a fatal runtime error can be attributed
		fmt.Fprintf(os.Stderr, "world %d seed %d\n", idx, cfg.Seed)
		w, herr := sim.RunWorld(cfg, false)
		bo.Worlds++
		if herr != "" {
			if len(bo.HarnessErrs) < 5 {
				bo.HarnessErrs = append(bo.HarnessErrs, fmt.Sprintf("world %d: %s", idx, herr))
			}
			continue
		}
		r := w.Result(idx)
		if os.Getenv("RV_TWICE") != "" && len(r.Viol) == 0 {
			// same inputs again, on fresh nodes, in this process: re-execute the
			// recorded actions (not the PRNG)
			tf := &sim.TraceFile{Cfg: w.Cfg, Idx: idx, Actions: w.Trace}
			w2, herr2 := sim.ReplayWorld(tf, false, 0)
			if herr2 != "" {
				bo.HarnessErrs = append(bo.HarnessErrs, fmt.Sprintf("world %d replay: %s", idx, herr2))
			} else if d2 := w2.Digest(); d2 != r.Digest {
				r.Viol = append(r.Viol, sim.Violation{Prop: "C19", Msg: fmt.Sprintf("replaying the same %d actions on fresh nodes in the same process gives a different digest over all Ready structs: %s vs %s", len(w.Trace), r.Digest[:16], d2[:16])})
			} else {
				r.Stats["digests-compared-in-process"]++
			}
		}
		mergeStats(bo.Stats, r.Stats)
		bo.PerProfile[r.Profile]++
		if sim.Nontrivial(*prop, r.Stats) {
			bo.NontrivSigs = append(bo.NontrivSigs, r.Sig)
		}
		if len(r.Inconclusive) > 0 {
			bo.NInconcl++
			if len(bo.Inconclusive) < 5 {
				bo.Inconclusive = append(bo.Inconclusive, fmt.Sprintf("world %d: %s", idx, r.Inconclusive[0]))
			}
		}
		if len(bo.Samples) < 3 && len(r.Samples) > 0 {
			bo.Samples = append(bo.Samples, map[string]any{"world": idx, "profile": r.Profile, "witness": r.Samples[0]})
		}
		if bo.Digests != nil {
			bo.Digests[idx] = r.Digest
		}
		if len(r.Viol) > 0 {
			path := ""
			for _, v := range r.Viol {
				if v.Concerns(*prop) {
					tag := "viol"
					if v.Known != "" {
						tag = "known"
					}
					path = filepath.Join(*replays, fmt.Sprintf("%s-%s-%s-s%d-w%d.json", *prop, tag, *tier, *seed, idx))
					break
				}
			}
			if path != "" && len(bo.Viol) < 40 {
				if err := w.WriteTrace(path, idx); err != nil {
					path = "unwritable:" + err.Error()
				}
			}
			for _, v := range r.Viol {
				if len(bo.Viol) < 200 {
					bo.Viol = append(bo.Viol, violOut{v, idx, path})
				}
			}
		}
		if bo.Worlds%50 == 0 {
			flush()
		}
	}
	bo.Done = true
	flush()
	return 0
}

type evidence struct {
	PropertyID  string         `json:"property_id"`
	Tier        string         `json:"tier"`
	Seed        int64          `json:"seed"`
	Level       string         `json:"level"`
	Coverage    map[string]any `json:"coverage"`
	Assumptions []string       `json:"assumptions"`
	WallS       float64        `json:"wall_s"`
	Violations  int            `json:"violations"`
}

func writeEvidence(path string, ev *evidence) error {
	b, err := json.MarshalIndent(ev, "", " ")
	if err != nil {
		return err
	}
	os.MkdirAll(filepath.Dir(path), 0o755)
	return os.WriteFile(path, b, 0o644)
}

func cmdSim(args []string) int {
	fs := flag.NewFlagSet("sim", flag.ExitOnError)
	prop := fs.String("prop", "", "property id")
	tier := fs.String("tier", "quick", "")
	seed := fs.Int64("seed", envSeed(), "")
	procs := fs.Int("procs", runtime.NumCPU(), "")
	worlds := fs.Int("worlds", 0, "")
	steps := fs.Int("steps", 0, "")
	evPath := fs.String("evidence", "", "")
	replays := fs.String("replays", verifDir()+"/replays", "")
	fs.Parse(args)
	if *prop == "" {
		usage()
	}
	if t := os.Getenv("VERIF_TIER"); t != "" && *tier == "" {
		*tier = t
	}
	ts, ok := tiers[*tier]
	if !ok {
		fmt.Println("unknown tier", *tier)
		return 2
	}
	if *worlds > 0 {
		ts.worlds = *worlds
	}
	if *steps > 0 {
		ts.steps = *steps
	}
	if *evPath == "" {
		*evPath = fmt.Sprintf("%s/%s.json", evidenceDir(), *prop)
	}
	os.MkdirAll(*replays, 0o755)
	t0 := time.Now()
	merged, timedOut := runChildren(*prop, *tier, *seed, *procs, ts, *replays, false)
	wall := time.Since(t0).Seconds()
	return concludeSim(*prop, *tier, *seed, ts, merged, timedOut, wall, *evPath)
}

// runChildren launches the batch processes and merges their output.
func runChildren(prop, tier string, seed int64, procs int, ts tierSize, replays string, digests bool) (*batchOut, int) {
	if procs > ts.worlds {
		procs = max(1, ts.worlds)
	}
	work, err := os.MkdirTemp("", "rv-"+prop+"-")
	if err != nil {
		fmt.Println(err)
		os.Exit(2)
	}
	defer os.RemoveAll(work)
	// generous wall-clock watchdog: its firing is "inconclusive", never a verdict
	limit := 40 * time.Minute
	if tier == "thorough" {
		limit = 4 * time.Hour
	}
	type res struct {
		j   int
		err error
	}
	ch := make(chan res, procs)
	for j := 0; j < procs; j++ {
		go func(j int) {
			ctx, cancel := context.WithTimeout(context.Background(), limit)
			defer cancel()
			out := filepath.Join(work, fmt.Sprintf("b%d.json", j))
			a := []string{"child", "-prop", prop, "-seed", fmt.Sprint(seed), "-from", fmt.Sprint(j), "-stride", fmt.Sprint(procs),
				"-n", fmt.Sprint(ts.worlds), "-steps", fmt.Sprint(ts.steps), "-out", out, "-replays", replays, "-tier", tier}
			if digests {
				a = append(a, "-digests")
			}
			c := exec.CommandContext(ctx, os.Args[0], a...)
			c.Cancel = func() error { return c.Process.Signal(syscall.SIGQUIT) }
			c.WaitDelay = 10 * time.Second
			lf, _ := os.Create(filepath.Join(work, fmt.Sprintf("b%d.log", j)))
			c.Stdout, c.Stderr = lf, lf
			err := c.Run()
			lf.Close()
			ch <- res{j, err}
		}(j)
	}
	merged := &batchOut{Stats: map[string]int{}, PerProfile: map[string]int{}}
	if digests {
		merged.Digests = map[int]string{}
	}
	timedOut := 0
	for i := 0; i < procs; i++ {
		r := <-ch
		out := filepath.Join(work, fmt.Sprintf("b%d.json", r.j))
		b, rerr := os.ReadFile(out)
		var bo batchOut
		if rerr == nil {
			rerr = json.Unmarshal(b, &bo)
		}
		if rerr != nil || !bo.Done || r.err != nil {
			timedOut++
			lg, _ := os.ReadFile(filepath.Join(work, fmt.Sprintf("b%d.log", r.j)))
			tail := string(lg)
			if len(tail) > 3000 {
				tail = tail[len(tail)-3000:]
			}
			merged.HarnessErrs = append(merged.HarnessErrs, fmt.Sprintf("batch %d did not finish (%v): ...%s", r.j, r.err, tail))
		}
		if rerr == nil {
			merged.Worlds += bo.Worlds
			mergeStats(merged.Stats, bo.Stats)
			for k, v := range bo.PerProfile {
				merged.PerProfile[k] += v
			}
			merged.NontrivSigs = append(merged.NontrivSigs, bo.NontrivSigs...)
			merged.Viol = append(merged.Viol, bo.Viol...)
			merged.NInconcl += bo.NInconcl
			if len(merged.Inconclusive) < 5 {
				merged.Inconclusive = append(merged.Inconclusive, bo.Inconclusive...)
			}
			if len(merged.Samples) < 3 {
				merged.Samples = append(merged.Samples, bo.Samples...)
			}
			merged.HarnessErrs = append(merged.HarnessErrs, bo.HarnessErrs...)
			for k, v := range bo.Digests {
				merged.Digests[k] = v
			}
		}
	}
	return merged, timedOut
}

func concludeSim(prop, tier string, seed int64, ts tierSize, merged *batchOut, timedOut int, wall float64, evPath string) int {
	distinct := map[uint64]bool{}
	for _, s := range merged.NontrivSigs {
		distinct[s] = true
	}
	// violations that concern this property
	var mine, known []violOut
	other := map[string]int{}
	for _, v := range merged.Viol {
		switch {
		case !v.Concerns(prop):
			if v.Known == "" {
				other[v.Prop]++
			}
		case v.Known != "":
			known = append(known, v)
		default:
			mine = append(mine, v)
		}
	}
	sort.Slice(mine, func(i, j int) bool { return mine[i].World < mine[j].World })
	knownHit := map[string]int{}
	for _, v := range known {
		id := v.Known
		if i := strings.Index(id, ":"); i > 0 {
			id = id[:i]
		}
		knownHit[id]++
	}
	samples := merged.Samples
	if len(samples) > 3 {
		samples = samples[:3]
	}
	if len(samples) == 0 {
		samples = []any{map[string]any{"note": "no witness sampled", "worlds": merged.Worlds}}
	}
	cov := map[string]any{
		"evaluations":         merged.Worlds,
		"distinct_nontrivial": len(distinct),
		"rule":                fmt.Sprintf("worlds are generated from (VERIF_SEED=%d, %s, world index 0..%d): cluster size, per-node Config, profile and schedule all come from that PRNG; %d scheduler actions per world followed by a fault-free heal suffix. Non-trivial = %s; distinct = distinct hash of the executed action sequence.", seed, prop, ts.worlds-1, ts.steps, sim.NontrivialRule[prop]),
		"samples":             samples,
		"events":              merged.Stats,
		"per_profile":         merged.PerProfile,
		"inconclusive_worlds": merged.NInconcl,
		"inconclusive_notes":  merged.Inconclusive,
		"known_findings_hit":  knownHit,
		"other_property_violations_seen": other,
		"unfinished_batches":  timedOut,
		"harness_errors":      len(merged.HarnessErrs),
		"actions_executed":    merged.Stats["actions"],
	}
	ev := &evidence{PropertyID: prop, Tier: tier, Seed: seed, Level: "exploration", Coverage: cov, WallS: wall, Violations: len(mine),
		Assumptions: []string{"the harness is a contract-respecting application (DESIGN.md section 3)", "reference models in harness/model are correct", "hook dumps in /repo/verif_hooks.go are faithful copies of raft's state"}}
	if err := writeEvidence(evPath, ev); err != nil {
		fmt.Println("cannot write evidence:", err)
		return 2
	}
	vw := map[int]bool{}
	for _, v := range mine {
		vw[v.World] = true
	}
	fmt.Printf("%s %s seed=%d: worlds=%d nontrivial-distinct=%d violations=%d (in %d worlds) known=%d other=%v inconclusive=%d wall=%.1fs\n", prop, tier, seed, merged.Worlds, len(distinct), len(mine), len(vw), len(known), other, merged.NInconcl, wall)
	// one line per finding that is listed (open) for this property, whether or
	// not this run met it again; nothing is ever added to the list at run time
	for _, kf := range openFindings {
		listed := false
		for _, p := range kf.Properties {
			if p == prop {
				listed = true
			}
		}
		if !listed {
			continue
		}
		n, eg := 0, ""
		worlds := map[int]bool{}
		for _, v := range known {
			if strings.HasPrefix(v.Known, kf.ID+":") {
				if !worlds[v.World] {
					worlds[v.World] = true
					n++
				}
				if eg == "" {
					eg = fmt.Sprintf(" e.g. world %d replay=%s", v.World, v.Replay)
				}
			}
		}
		fmt.Printf("KNOWN-FINDING: property=%s %s %s [met again in %d world(s) of this run%s]\n", prop, kf.ID, kf.Summary, n, eg)
	}
	for i, v := range mine {
		if i >= 5 {
			break
		}
		fmt.Printf("VIOLATION property=%s replay=%s\n   world %d step %d [%s]: %s\n", prop, v.Replay, v.World, v.Step, v.Prop, v.Msg)
	}
	for _, e := range merged.HarnessErrs {
		fmt.Println("HARNESS:", e)
	}
	if os.Getenv("RV_DEBUG") != "" {
		groups := map[string][]int{}
		re := regexp.MustCompile(`[0-9]+`)
		for _, v := range merged.Viol {
			k := v.Prop + ": " + re.ReplaceAllString(firstLine(v.Msg), "N")
			if len(k) > 160 {
				k = k[:160]
			}
			if v.Known != "" {
				k = "[known] " + k
			}
			groups[k] = append(groups[k], v.World)
		}
		var ks []string
		for k := range groups {
			ks = append(ks, k)
		}
		sort.Strings(ks)
		for _, k := range ks {
			w := groups[k]
			if len(w) > 6 {
				w = w[:6]
			}
			fmt.Printf("DEBUG %4d x %s   worlds %v\n", len(groups[k]), k, w)
		}
	}
	if len(mine) > 0 {
		return 1
	}
	if len(merged.HarnessErrs) > 0 || timedOut > 0 {
		fmt.Println("INCONCLUSIVE: some batches did not finish or the harness failed")
		return 2
	}
	if merged.Worlds == 0 || len(distinct) < 2 {
		fmt.Println("INCONCLUSIVE: the monitor observed (almost) nothing")
		return 2
	}
	return 0
}

func firstLine(s string) string {
	if i := strings.IndexByte(s, '\n'); i >= 0 {
		return s[:i]
	}
	return s
}
