package main

import (
	"flag"
	"fmt"
	"os"
	"runtime"
	"time"

	"verif/sim"
)

// cmdDeterminism decides C19: every world is executed (a) generated and then
// re-executed from its recorded actions on fresh nodes in the same process, and
// (b) generated again in a different process (different map seeds, heap
// layout, batch composition); the running SHA-256 over every Ready must agree.
func cmdDeterminism(args []string) int {
	fs := flag.NewFlagSet("determinism", flag.ExitOnError)
	tier := fs.String("tier", "quick", "")
	seed := fs.Int64("seed", envSeed(), "")
	procs := fs.Int("procs", runtime.NumCPU(), "")
	worlds := fs.Int("worlds", 0, "")
	fs.Parse(args)
	ts := tierSize{2400, 2000}
	if *tier == "thorough" {
		ts = tierSize{24000, 3000}
	}
	if *worlds > 0 {
		ts.worlds = *worlds
	}
	replays := verifDir() + "/replays"
	os.MkdirAll(replays, 0o755)
	t0 := time.Now()
	os.Setenv("RV_TWICE", "1")
	a, toA := runChildren("C19", *tier, *seed, *procs, ts, replays, true)
	os.Unsetenv("RV_TWICE")
	p2 := max(1, *procs-3) // different batch composition in the second campaign
	b, toB := runChildren("C19", *tier, *seed, p2, ts, replays, true)
	wall := time.Since(t0).Seconds()
	compared, mismatch := 0, 0
	for idx, da := range a.Digests {
		db, ok := b.Digests[idx]
		if !ok {
			continue
		}
		compared++
		if da != db {
			mismatch++
			if mismatch <= 5 {
				cfg := sim.GenWorld(*seed, "C19", idx, ts.steps)
				w, _ := sim.RunWorld(cfg, false)
				path := fmt.Sprintf("%s/C19-viol-%s-s%d-w%d.json", replays, *tier, *seed, idx)
				if w != nil {
					w.WriteTrace(path, idx)
				}
				a.Viol = append(a.Viol, violOut{sim.Violation{Prop: "C19", Msg: fmt.Sprintf("world %d: digest over all Ready structs differs between two processes: %s vs %s", idx, da[:16], db[:16])}, idx, path})
			}
		}
	}
	a.Stats["digests-compared-across-processes"] = compared
	a.Stats["digest-mismatches-across-processes"] = mismatch
	a.HarnessErrs = append(a.HarnessErrs, b.HarnessErrs...)
	rc := concludeSim("C19", *tier, *seed, ts, a, toA+toB, wall, fmt.Sprintf("%s/C19.json", evidenceDir()))
	if rc == 0 && compared < ts.worlds/2 {
		fmt.Println("INCONCLUSIVE: too few digests compared")
		return 2
	}
	return rc
}
