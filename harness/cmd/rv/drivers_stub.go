package main

func cmdQuorum(args []string) int      { return 2 }
func cmdConfChange(args []string) int  { return 2 }
func cmdLogModel(args []string) int    { return 2 }
func cmdDeterminism(args []string) int { return 2 }
