package main

import (
	"flag"
	"fmt"
	"math/rand"
	"os"
	"sort"
	"time"

	"go.etcd.io/raft/v3/confchange"
	"go.etcd.io/raft/v3/quorum"
	pb "go.etcd.io/raft/v3/raftpb"
	"go.etcd.io/raft/v3/tracker"
	"google.golang.org/protobuf/proto"

	"verif/model"
)

func writeFile(path, s string) { os.WriteFile(path, []byte(s), 0o644) }

func setIDs(m map[uint64]struct{}) []uint64 {
	out := make([]uint64, 0, len(m))
	for k := range m {
		out = append(out, k)
	}
	sort.Slice(out, func(i, j int) bool { return out[i] < out[j] })
	return out
}

func confFromTracker(c tracker.Config) model.Conf {
	return model.NewConf(setIDs(c.Voters[0]), setIDs(c.Voters[1]), setIDs(c.Learners), setIDs(c.LearnersNext), c.AutoLeave)
}

// trackerFingerprint renders Config and Progress completely (for the
// "rejected changes leave the input untouched" comparison).
func trackerFingerprint(t tracker.ProgressTracker) string {
	s := fmt.Sprintf("%v|%v|%v|%v|%v|nil:%v,%v,%v;", setIDs(t.Voters[0]), setIDs(t.Voters[1]), setIDs(t.Learners), setIDs(t.LearnersNext), t.AutoLeave,
		t.Voters[1] == nil, t.Learners == nil, t.LearnersNext == nil)
	ids := make([]uint64, 0, len(t.Progress))
	for id := range t.Progress {
		ids = append(ids, id)
	}
	sort.Slice(ids, func(i, j int) bool { return ids[i] < ids[j] })
	for _, id := range ids {
		p := t.Progress[id]
		s += fmt.Sprintf("%d:%d/%d/%v/%v/%v/%v/%d;", id, p.Match, p.Next, p.State, p.IsLearner, p.RecentActive, p.MsgAppFlowPaused, p.PendingSnapshot)
	}
	return s
}

type ccOp struct {
	kind    int // 0 simple, 1 enter joint (autoLeave false), 2 enter joint (autoLeave true), 3 leave joint
	changes []model.Single
}

func (o ccOp) String() string {
	return fmt.Sprintf("%s%v", []string{"simple", "enter-joint", "enter-joint-autoleave", "leave-joint"}[o.kind], o.changes)
}

func toPB(chs []model.Single) []*pb.ConfChangeSingle {
	out := make([]*pb.ConfChangeSingle, len(chs))
	for i, c := range chs {
		out[i] = &pb.ConfChangeSingle{Type: pb.ConfChangeType(c.Type).Enum(), NodeId: new(c.ID)}
	}
	return out
}

type ccChecker struct {
	viol        int
	transitions int
	accepted    int
	rejected    int
	restores    int
	tier        string
	seed        int64
	samples     []any
}

func (c *ccChecker) report(f string, a ...any) {
	c.viol++
	if c.viol <= 5 {
		msg := fmt.Sprintf(f, a...)
		path := fmt.Sprintf("%s/replays/C13-viol-%s-s%d-%d.txt", verifDir(), c.tier, c.seed, c.viol)
		writeFile(path, msg+"\n")
		fmt.Printf("VIOLATION property=C13 replay=%s\n   %s\n", path, msg)
	}
}

// step applies op to the tracker with the real Changer, checks everything C13
// states, and returns the successor (nil if rejected).
func (c *ccChecker) step(trk tracker.ProgressTracker, mc model.Conf, op ccOp, history string) (*tracker.ProgressTracker, model.Conf) {
	c.transitions++
	before := trackerFingerprint(trk)
	ch := confchange.Changer{Tracker: trk, LastIndex: 10}
	var cfg tracker.Config
	var prs tracker.ProgressMap
	var err error
	var want model.Conf
	var werr error
	func() {
		defer func() {
			if r := recover(); r != nil {
				c.report("panic in confchange on %s from %s (%s): %v", op, mc, history, r)
				err = fmt.Errorf("panic")
			}
		}()
		switch op.kind {
		case 0:
			cfg, prs, err = ch.Simple(toPB(op.changes)...)
			want, werr = mc.Simple(op.changes)
		case 1, 2:
			cfg, prs, err = ch.EnterJoint(op.kind == 2, toPB(op.changes)...)
			want, werr = mc.EnterJoint(op.kind == 2, op.changes)
		case 3:
			cfg, prs, err = ch.LeaveJoint()
			want, werr = mc.LeaveJoint()
		}
	}()
	if after := trackerFingerprint(trk); after != before {
		c.report("input tracker modified by %s (err=%v) from %s (%s):\n   before %s\n   after  %s", op, err, mc, history, before, after)
	}
	if (err == nil) != (werr == nil) {
		c.report("%s from %s (%s): library says err=%v, reference model says err=%v", op, mc, history, err, werr)
		return nil, model.Conf{}
	}
	if err != nil {
		c.rejected++
		return nil, model.Conf{}
	}
	c.accepted++
	got := confFromTracker(cfg)
	if !got.Equal(want) {
		c.report("%s from %s (%s): library gives %s, reference model gives %s", op, mc, history, got, want)
	}
	if e := got.CheckInvariants(); e != nil {
		c.report("%s from %s (%s): result %s violates invariant: %v", op, mc, history, got, e)
	}
	// every member has exactly one progress record and non-members none
	mem := got.Members()
	for id := range mem {
		if prs[id] == nil {
			c.report("%s from %s (%s): member %d of %s has no progress record", op, mc, history, id, got)
		}
	}
	for id, pr := range prs {
		if !mem[id] {
			c.report("%s from %s (%s): non-member %d has a progress record (result %s)", op, mc, history, id, got)
		}
		if pr.IsLearner != got.L[id] {
			c.report("%s from %s (%s): progress of %d has IsLearner=%v but result is %s", op, mc, history, id, pr.IsLearner, got)
		}
	}
	if op.kind == 0 {
		d := 0
		for id := range mc.V {
			if !got.V[id] {
				d++
			}
		}
		for id := range got.V {
			if !mc.V[id] {
				d++
			}
		}
		if d > 1 {
			c.report("simple change %s from %s altered the voter set by %d (result %s)", op, mc, d, got)
		}
	}
	nt := tracker.MakeProgressTracker(trk.MaxInflight, trk.MaxInflightBytes)
	nt.Config, nt.Progress = cfg, prs
	// ConfState round trip
	cs := nt.ConfState()
	c.restores++
	rt := tracker.MakeProgressTracker(4, 0)
	rcfg, rprs, rerr := confchange.Restore(confchange.Changer{Tracker: rt, LastIndex: 10}, cs)
	if rerr != nil {
		c.report("Restore(ConfState %s) failed: %v (reached by %s from %s)", got, rerr, op, mc)
	} else {
		rt.Config, rt.Progress = rcfg, rprs
		if e := cs.Equivalent(rt.ConfState()); e != nil {
			c.report("Restore(ConfState(%s)) gives %s: %v", got, confFromTracker(rcfg), e)
		}
		if !confFromTracker(rcfg).Equal(got) {
			c.report("Restore(ConfState(%s)) gives %s", got, confFromTracker(rcfg))
		}
		if len(rprs) != len(prs) {
			c.report("Restore(ConfState(%s)) has %d progress records, original %d", got, len(rprs), len(prs))
		}
		for id, pr := range rprs {
			if o := prs[id]; o == nil || o.IsLearner != pr.IsLearner {
				c.report("Restore(ConfState(%s)): progress of %d differs (learner flag or missing)", got, id)
			}
		}
	}
	if len(c.samples) < 3 && got.Joint() && len(got.LN) > 0 {
		c.samples = append(c.samples, map[string]any{"from": mc.String(), "op": op.String(), "to": got.String(), "confstate": cs.String()})
	}
	return &nt, got
}

func genOps(n, maxChanges int) []ccOp {
	var singles []model.Single
	for _, t := range []int{model.AddNode, model.RemoveNode, model.UpdateNode, model.AddLearner} {
		for id := 0; id <= n; id++ {
			singles = append(singles, model.Single{Type: t, ID: uint64(id)})
		}
	}
	var seqs [][]model.Single
	seqs = append(seqs, nil)
	cur := [][]model.Single{nil}
	for l := 1; l <= maxChanges; l++ {
		var next [][]model.Single
		for _, s := range cur {
			for _, x := range singles {
				ns := append(append([]model.Single{}, s...), x)
				next = append(next, ns)
			}
		}
		seqs = append(seqs, next...)
		cur = next
	}
	var ops []ccOp
	for _, s := range seqs {
		for k := 0; k <= 2; k++ {
			ops = append(ops, ccOp{kind: k, changes: s})
		}
	}
	ops = append(ops, ccOp{kind: 3})
	return ops
}

func initialTracker(id uint64) (tracker.ProgressTracker, model.Conf) {
	t := tracker.MakeProgressTracker(4, 0)
	cfg, prs, err := confchange.Restore(confchange.Changer{Tracker: t, LastIndex: 10}, &pb.ConfState{Voters: []uint64{id}})
	if err != nil {
		panic(err)
	}
	t.Config, t.Progress = cfg, prs
	return t, confFromTracker(cfg)
}

// cmdConfChange decides C13: breadth-first closure of the configuration space
// with the real confchange.Changer against the reference model.
func cmdConfChange(args []string) int {
	fs := flag.NewFlagSet("confchange", flag.ExitOnError)
	tier := fs.String("tier", "quick", "")
	seed := fs.Int64("seed", envSeed(), "")
	fs.Parse(args)
	t0 := time.Now()
	n, maxCh := 4, 2
	if *tier == "thorough" {
		n, maxCh = 5, 2
	}
	c := &ccChecker{tier: *tier, seed: *seed}
	ops := genOps(n, maxCh)
	type st struct {
		trk tracker.ProgressTracker
		mc  model.Conf
	}
	seen := map[string]bool{}
	var frontier []st
	for id := 1; id <= n; id++ {
		t, mc := initialTracker(uint64(id))
		if !seen[mc.String()] {
			seen[mc.String()] = true
			frontier = append(frontier, st{t, mc})
		}
	}
	exhaustive := true
	maxStates := 2000000
	for len(frontier) > 0 && c.viol == 0 {
		var next []st
		for _, s := range frontier {
			for _, op := range ops {
				nt, mc := c.step(s.trk, s.mc, op, "closure")
				if nt == nil {
					continue
				}
				k := mc.String()
				if !seen[k] {
					seen[k] = true
					next = append(next, st{*nt, mc})
				}
			}
			if len(seen) > maxStates {
				exhaustive = false
				next = nil
				break
			}
		}
		frontier = next
	}
	closureStates, closureTransitions := len(seen), c.transitions
	// zero-voter inputs and other corner inputs that the closure cannot reach
	{
		empty := tracker.MakeProgressTracker(4, 0)
		for _, op := range ops[:min(len(ops), 200)] {
			c.step(empty, confFromTracker(empty.Config), op, "empty-config")
		}
	}
	// random long walks over ids {1..7} with up to 3 changes per step
	r := rand.New(rand.NewSource(*seed*104729 + 3))
	walks, length := 300, 200
	if *tier == "thorough" {
		walks = 3000
	}
	walkStates := map[string]bool{}
	for wi := 0; wi < walks && c.viol == 0; wi++ {
		t, mc := initialTracker(uint64(1 + r.Intn(7)))
		hist := fmt.Sprintf("walk %d", wi)
		var held, heldCopy *pb.ConfState
		for s := 0; s < length; s++ {
			op := ccOp{kind: r.Intn(4)}
			if r.Intn(3) == 0 && mc.Joint() {
				op.kind = 3
			}
			if op.kind != 3 {
				k := 1 + r.Intn(3)
				if op.kind == 0 && r.Intn(3) != 0 {
					k = 1
				}
				for j := 0; j < k; j++ {
					op.changes = append(op.changes, model.Single{Type: []int{model.AddNode, model.RemoveNode, model.UpdateNode, model.AddLearner, model.AddNode, model.AddLearner}[r.Intn(6)], ID: uint64(r.Intn(8))})
				}
			}
			nt, nmc := c.step(t, mc, op, hist)
			if nt != nil {
				// a long-lived tracker, as raft keeps one: a ConfState handed out
				// earlier must not change when the configuration is switched
				t, mc = *nt, nmc
				walkStates[mc.String()] = true
				if held != nil && !proto.Equal(held, heldCopy) {
					c.report("ConfState handed out for %s reads %s after the tracker switched to %s (%s)", heldCopy, held, mc, hist)
				}
				held = t.ConfState()
				heldCopy = proto.Clone(held).(*pb.ConfState)
			}
		}
	}
	wall := time.Since(t0).Seconds()
	if len(c.samples) == 0 {
		c.samples = append(c.samples, map[string]any{"note": "no joint configuration with staged learners reached"})
	}
	ev := &evidence{PropertyID: "C13", Tier: *tier, Seed: *seed, Level: "exploration", WallS: wall, Violations: c.viol,
		Coverage: map[string]any{
			"evaluations":         c.transitions,
			"distinct_nontrivial": closureStates + len(walkStates),
			"exhaustive":          exhaustive && c.viol == 0,
			"states":              closureStates,
			"transitions":         closureTransitions,
			"accepted":            c.accepted,
			"rejected":            c.rejected,
			"confstate_round_trips": c.restores,
			"walk_states":         len(walkStates),
			"rule": fmt.Sprintf("breadth-first closure from every single-voter configuration over ids {1..%d}: every change list of 0..%d single changes (AddNode, RemoveNode, UpdateNode, AddLearnerNode; ids 0..%d, so zero-id and duplicate changes are included) fed to Simple, EnterJoint(autoLeave false/true) and LeaveJoint of the real confchange.Changer; states deduplicated by canonical configuration; 'exhaustive' is true iff the frontier emptied. Plus %d random walks of %d steps over ids {1..7} with up to 3 changes per step. evaluations = Changer calls; distinct_nontrivial = distinct configurations reached (closure + walks).", n, maxCh, n, walks, length),
			"samples": c.samples,
		},
		Assumptions: []string{"harness/model/conf.go is a correct independent statement of the configuration algebra"}}
	if err := writeEvidence(fmt.Sprintf("%s/C13.json", evidenceDir()), ev); err != nil {
		fmt.Println("cannot write evidence:", err)
		return 2
	}
	fmt.Printf("C13 %s seed=%d: closure states=%d transitions=%d exhaustive=%v accepted=%d rejected=%d walks-states=%d violations=%d wall=%.1fs\n", *tier, *seed, closureStates, closureTransitions, exhaustive, c.accepted, c.rejected, len(walkStates), c.viol, wall)
	if c.viol > 0 {
		return 1
	}
	if closureStates < 100 {
		fmt.Println("INCONCLUSIVE: closure too small")
		return 2
	}
	return 0
}

var _ = quorum.MajorityConfig{}
