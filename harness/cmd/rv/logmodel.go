package main

// C18: MemoryStorage and the combined stable+unstable log view (through the
// verif-tagged VerifLog wrapper) against an abstract list of entries with a
// compacted prefix.

import (
	"flag"
	"fmt"
	"io"
	"log"
	"math"
	"math/rand"
	"strings"
	"time"

	"go.etcd.io/raft/v3"
	pb "go.etcd.io/raft/v3/raftpb"
	"google.golang.org/protobuf/proto"
)

type ment struct {
	term uint64
	data string
}

type lbatch struct {
	ents      []*pb.Entry
	snap      *pb.Snapshot
	epoch     int // acknowledgements are honoured only under the documented precondition of stableTo
	persisted bool
}

type lmodel struct {
	baseI, baseT       uint64 // compaction / snapshot point of the logical log
	ents               []ment // logical entries baseI+1..
	committed, applied uint64
	curTerm            uint64
	epoch              int
	handed             uint64 // highest index handed out and still valid
	sBaseI, sBaseT     uint64 // storage model
	sEnts              []ment
}

func (m *lmodel) last() uint64 { return m.baseI + uint64(len(m.ents)) }
func (m *lmodel) term(i uint64) (uint64, bool) {
	if i == m.baseI {
		return m.baseT, true
	}
	if i < m.baseI || i > m.last() {
		return 0, false
	}
	return m.ents[i-m.baseI-1].term, true
}

type lsys struct {
	ms     *raft.MemoryStorage
	l      *raft.VerifLog
	m      lmodel
	q      []*lbatch
	seq    int
	trace  []string
	failed string
	checks int
	stats  map[string]int
}

func newLsys(stats map[string]int) *lsys {
	s := &lsys{ms: raft.NewMemoryStorage(), stats: stats}
	s.l = raft.NewVerifLog(s.ms, math.MaxUint64)
	return s
}

func (s *lsys) logf(f string, a ...any) { s.trace = append(s.trace, fmt.Sprintf(f, a...)) }

func (s *lsys) fail(f string, a ...any) {
	if s.failed == "" {
		s.failed = fmt.Sprintf(f, a...)
	}
}

func (s *lsys) mkEnts(from uint64, n int, term uint64) []*pb.Entry {
	var es []*pb.Entry
	for i := 0; i < n; i++ {
		s.seq++
		d := fmt.Sprintf("d%d", s.seq)
		if s.seq%3 == 0 {
			d += "........" // non-uniform sizes matter for size-limited slices
		}
		es = append(es, &pb.Entry{Index: new(from + uint64(i)), Term: new(term), Data: []byte(d)})
	}
	return es
}

func entSize(e *pb.Entry) uint64 { return uint64(proto.Size(e)) }

// expectPrefix computes how many entries a size-limited query must return:
// a non-empty prefix, as many entries as fit, at least one.
func expectPrefix(sizes []uint64, maxSize uint64) int {
	if len(sizes) == 0 {
		return 0
	}
	var tot uint64
	n := 0
	for _, sz := range sizes {
		if n > 0 && tot+sz > maxSize {
			break
		}
		tot += sz
		n++
	}
	return n
}

func (s *lsys) check() {
	if s.failed != "" {
		return
	}
	s.checks++
	m, l := &s.m, s.l
	if l.LastIndex() != m.last() {
		s.fail("lastIndex %d want %d", l.LastIndex(), m.last())
		return
	}
	fi := l.FirstIndex()
	if fi != m.baseI+1 {
		s.fail("firstIndex %d want %d", fi, m.baseI+1)
		return
	}
	for i := uint64(0); i <= m.last()+2; i++ {
		t, err := l.Term(i)
		mt, ok := m.term(i)
		switch {
		case i+1 < fi:
			if err != raft.ErrCompacted {
				s.fail("term(%d) = %d,%v want ErrCompacted (first %d)", i, t, err, fi)
			}
		case i > m.last():
			if err != raft.ErrUnavailable {
				s.fail("term(%d) = %d,%v want ErrUnavailable (last %d)", i, t, err, m.last())
			}
		default:
			if err != nil || !ok || t != mt {
				s.fail("term(%d) = %d,%v want %d (first %d last %d)", i, t, err, mt, fi, m.last())
			}
		}
	}
	if s.failed != "" {
		return
	}
	// entry sizes of the logical log
	sizes := make([]uint64, len(m.ents))
	for k, e := range m.ents {
		sizes[k] = entSize(&pb.Entry{Index: new(m.baseI + 1 + uint64(k)), Term: new(e.term), Data: []byte(e.data)})
	}
	for lo := fi; lo <= m.last()+1 && lo >= 1; lo++ {
		for hi := lo; hi <= m.last()+1; hi++ {
			var limits []uint64
			limits = append(limits, 0, 1, math.MaxUint64)
			if lo <= m.last() {
				one := sizes[lo-m.baseI-1]
				limits = append(limits, one, one+1)
				if lo+1 <= m.last() {
					limits = append(limits, one+sizes[lo-m.baseI], one+sizes[lo-m.baseI]-1)
				}
			}
			for _, mx := range limits {
				got, err := l.Slice(lo, hi, mx)
				if err != nil {
					s.fail("slice(%d,%d,%d) err %v", lo, hi, mx, err)
					return
				}
				want := expectPrefix(sizes[lo-m.baseI-1:hi-m.baseI-1], mx)
				if len(got) != want {
					s.fail("slice(%d,%d,max %d) returned %d entries want %d", lo, hi, mx, len(got), want)
					return
				}
				for k, e := range got {
					me := m.ents[lo+uint64(k)-m.baseI-1]
					if e.GetIndex() != lo+uint64(k) || e.GetTerm() != me.term || string(e.GetData()) != me.data {
						s.fail("slice(%d,%d)[%d] = (%d,%d,%q) want (%d,%d,%q)", lo, hi, k, e.GetIndex(), e.GetTerm(), e.GetData(), lo+uint64(k), me.term, me.data)
						return
					}
				}
				s.stats["slice-queries"]++
			}
		}
		// entries(i, maxSize)
		got, err := l.Entries(lo, math.MaxUint64)
		if err != nil || uint64(len(got)) != m.last()+1-lo {
			s.fail("entries(%d) returned %d entries, %v; want %d", lo, len(got), err, m.last()+1-lo)
			return
		}
	}
	if fi > 1 {
		if _, err := l.Slice(fi-1, fi, math.MaxUint64); err != raft.ErrCompacted {
			s.fail("slice(%d,%d) below first: err %v want ErrCompacted", fi-1, fi, err)
			return
		}
	}
	// hand-out cursor: the next unstable entries start right after what is in
	// progress and reach the last index
	if es := l.NextUnstableEnts(); len(es) > 0 {
		want := max(m.handed, l.UnstableOffset()-1) + 1
		if es[0].GetIndex() != want || es[len(es)-1].GetIndex() != m.last() {
			s.fail("nextUnstableEnts covers [%d,%d] want [%d,%d]", es[0].GetIndex(), es[len(es)-1].GetIndex(), want, m.last())
			return
		}
		for k, e := range es {
			me := m.ents[es[0].GetIndex()+uint64(k)-m.baseI-1]
			if e.GetTerm() != me.term || string(e.GetData()) != me.data {
				s.fail("nextUnstableEnts[%d] is (%d,%d,%q), log has (%d,%q)", k, e.GetIndex(), e.GetTerm(), e.GetData(), me.term, me.data)
				return
			}
		}
	} else if m.handed < m.last() && l.UnstableOffset() <= m.last() {
		s.fail("nextUnstableEnts empty but handed=%d last=%d", m.handed, m.last())
		return
	}
	if l.UnstableOffset() > l.OffsetInProgress() {
		s.fail("unstable offset %d > offsetInProgress %d", l.UnstableOffset(), l.OffsetInProgress())
		return
	}
	// storage against its own model
	sl := m.sBaseI + uint64(len(m.sEnts))
	if f, _ := s.ms.FirstIndex(); f != m.sBaseI+1 {
		s.fail("storage FirstIndex %d want %d", f, m.sBaseI+1)
		return
	}
	if x, _ := s.ms.LastIndex(); x != sl {
		s.fail("storage LastIndex %d want %d", x, sl)
		return
	}
	for i := uint64(0); i <= sl+2; i++ {
		t, err := s.ms.Term(i)
		switch {
		case i < m.sBaseI:
			if err != raft.ErrCompacted {
				s.fail("storage Term(%d)=%d,%v want ErrCompacted", i, t, err)
			}
		case i > sl:
			if err != raft.ErrUnavailable {
				s.fail("storage Term(%d)=%d,%v want ErrUnavailable", i, t, err)
			}
		case i == m.sBaseI:
			if err != nil || t != m.sBaseT {
				s.fail("storage Term(%d)=%d,%v want base %d", i, t, err, m.sBaseT)
			}
		default:
			if err != nil || t != m.sEnts[i-m.sBaseI-1].term {
				s.fail("storage Term(%d)=%d,%v want %d", i, t, err, m.sEnts[i-m.sBaseI-1].term)
			}
		}
	}
	if s.failed != "" {
		return
	}
	ssz := make([]uint64, len(m.sEnts))
	for k, e := range m.sEnts {
		ssz[k] = entSize(&pb.Entry{Index: new(m.sBaseI + 1 + uint64(k)), Term: new(e.term), Data: []byte(e.data)})
	}
	for lo := uint64(0); lo <= sl; lo++ {
		for _, mx := range []uint64{math.MaxUint64, 0, 1} {
			got, err := s.ms.Entries(lo, sl+1, mx)
			if lo <= m.sBaseI {
				if err != raft.ErrCompacted {
					s.fail("storage Entries(%d,..) err %v want ErrCompacted", lo, err)
					return
				}
				continue
			}
			want := expectPrefix(ssz[lo-m.sBaseI-1:], mx)
			if err != nil || len(got) != want {
				s.fail("storage Entries(%d,%d,max %d) = %d entries, %v; want %d", lo, sl+1, mx, len(got), err, want)
				return
			}
			for k, e := range got {
				me := m.sEnts[lo+uint64(k)-m.sBaseI-1]
				if e.GetIndex() != lo+uint64(k) || e.GetTerm() != me.term || string(e.GetData()) != me.data {
					s.fail("storage Entries(%d)[%d] mismatch", lo, k)
					return
				}
			}
		}
	}
	if sn, err := s.ms.Snapshot(); err != nil || sn.GetMetadata().GetIndex() != m.sBaseI && m.sBaseI != 0 {
		s.fail("storage Snapshot index %d want %d (%v)", sn.GetMetadata().GetIndex(), m.sBaseI, err)
	}
}

// choice is one deterministic operation of the driver.
type choice struct {
	op   int
	a, b int
}

func (c choice) String() string {
	return fmt.Sprintf("%s(%d,%d)", []string{"append", "maybeAppend", "handout", "persist", "ack", "commit", "apply", "compact", "restore", "staleack", "stalesnap"}[c.op], c.a, c.b)
}

func (s *lsys) pendingSnapshot() bool {
	if s.l.HasNextOrInProgressSnapshot() {
		return true
	}
	for _, b := range s.q {
		if b.snap != nil {
			return true
		}
	}
	return false
}

func lastTermOf(m *lmodel) uint64 {
	t, _ := m.term(m.last())
	return t
}

// do executes one choice; it returns false if the choice is not applicable in
// the current state (nothing happens then).
func (s *lsys) do(c choice) bool {
	m, l := &s.m, s.l
	switch c.op {
	case 0: // leader-style append at the end: a = number of entries, b = 1 for a new term
		if m.curTerm < lastTermOf(m) {
			m.curTerm = lastTermOf(m)
		}
		if c.b == 1 || m.curTerm == 0 {
			m.curTerm++
			m.epoch++
		}
		es := s.mkEnts(m.last()+1, c.a, m.curTerm)
		s.logf("append %d entries at %d term %d", c.a, m.last()+1, m.curTerm)
		l.Append(es...)
		for _, e := range es {
			m.ents = append(m.ents, ment{e.GetTerm(), string(e.GetData())})
		}
		s.stats["appends"]++
	case 1: // follower-style maybeAppend: a = offset of prev above the commit index, b = number of entries
		lo := max(m.committed, m.baseI)
		prev := lo + uint64(c.a)
		if prev > m.last() {
			return false
		}
		pt, _ := m.term(prev)
		m.curTerm = max(m.curTerm, lastTermOf(m)) + 1
		m.epoch++
		es := s.mkEnts(prev+1, c.b, m.curTerm)
		s.logf("maybeAppend prev=(%d,%d) %d entries term %d", prev, pt, c.b, m.curTerm)
		if _, ok := l.MaybeAppend(m.curTerm, prev, pt, m.committed, es); !ok {
			s.fail("maybeAppend rejected matching prev (%d,%d)", prev, pt)
			return true
		}
		if c.b > 0 {
			if prev < m.last() {
				s.stats["overwrites"]++
			}
			m.handed = min(m.handed, prev)
			m.ents = m.ents[:prev-m.baseI]
			for _, e := range es {
				m.ents = append(m.ents, ment{e.GetTerm(), string(e.GetData())})
			}
		}
		// mismatching prev must be refused
		if prev > m.baseI {
			if _, ok := l.MaybeAppend(m.curTerm, prev, pt+1000, m.committed, nil); ok {
				s.fail("maybeAppend accepted mismatching prev (%d,%d)", prev, pt+1000)
			}
		}
	case 2: // hand out unstable entries / snapshot (Ready)
		es := l.NextUnstableEnts()
		sn := l.NextUnstableSnapshot()
		if len(es) == 0 && sn == nil {
			return false
		}
		b := &lbatch{epoch: m.epoch, snap: sn}
		for _, e := range es {
			b.ents = append(b.ents, proto.Clone(e).(*pb.Entry))
		}
		l.AcceptUnstable()
		m.handed = m.last()
		s.q = append(s.q, b)
		s.logf("handout %d entries snap=%v epoch %d", len(es), sn != nil, m.epoch)
		s.stats["handouts"]++
	case 3: // persist the oldest unpersisted batch
		for _, b := range s.q {
			if b.persisted {
				continue
			}
			if b.snap != nil {
				if err := s.ms.ApplySnapshot(b.snap); err != nil {
					s.fail("ApplySnapshot: %v", err)
					return true
				}
				m.sBaseI, m.sBaseT, m.sEnts = b.snap.GetMetadata().GetIndex(), b.snap.GetMetadata().GetTerm(), nil
			}
			if len(b.ents) > 0 {
				f := b.ents[0].GetIndex()
				lst := f + uint64(len(b.ents)) - 1
				if err := s.ms.Append(b.ents); err != nil {
					s.fail("Append: %v", err)
					return true
				}
				if lst > m.sBaseI {
					ents := b.ents
					if f <= m.sBaseI {
						ents = ents[m.sBaseI+1-f:]
						f = m.sBaseI + 1
					}
					m.sEnts = m.sEnts[:f-m.sBaseI-1]
					for _, e := range ents {
						m.sEnts = append(m.sEnts, ment{e.GetTerm(), string(e.GetData())})
					}
				}
			}
			b.persisted = true
			s.logf("persist batch (%d entries, snap=%v)", len(b.ents), b.snap != nil)
			s.stats["persists"]++
			return true
		}
		return false
	case 4: // acknowledge the oldest persisted batch (FIFO)
		if len(s.q) == 0 || !s.q[0].persisted {
			return false
		}
		b := s.q[0]
		s.q = s.q[1:]
		if b.snap != nil {
			l.StableSnapTo(b.snap.GetMetadata().GetIndex())
			s.logf("ack snapshot %d", b.snap.GetMetadata().GetIndex())
		}
		if len(b.ents) > 0 {
			last := b.ents[len(b.ents)-1]
			// documented precondition of stableTo: the caller can attest that the
			// entries cannot be overwritten by an in-progress append
			safe := b.epoch == m.epoch
			if !safe {
				safe = true
				for _, o := range s.q {
					if len(o.ents) > 0 && o.ents[0].GetIndex() <= last.GetIndex() || o.snap != nil {
						safe = false
					}
				}
				if safe {
					s.stats["stale-acks-issued"]++
					if t, ok := m.term(last.GetIndex()); ok && t != last.GetTerm() {
						s.stats["aba-acks-issued"]++
					}
				}
			}
			if safe {
				l.StableTo(last.GetIndex(), last.GetTerm())
				s.logf("ack (%d,%d)", last.GetIndex(), last.GetTerm())
			} else {
				s.logf("ack (%d,%d) withheld: precondition of stableTo not met", last.GetIndex(), last.GetTerm())
			}
		}
		s.stats["acks"]++
	case 5: // commit: a = 0 one more, 1 everything
		if m.last() <= m.committed {
			return false
		}
		if c.a == 0 {
			m.committed++
		} else {
			m.committed = m.last()
		}
		l.CommitTo(m.committed)
		s.logf("commitTo %d", m.committed)
	case 6: // apply
		if m.committed <= m.applied {
			return false
		}
		if c.a == 0 {
			m.applied++
		} else {
			m.applied = m.committed
		}
		l.AppliedTo(m.applied, 0)
		s.logf("appliedTo %d", m.applied)
	case 7: // compaction of storage: a = 0 lowest legal index, 1 highest legal
		fi, _ := s.ms.FirstIndex()
		li, _ := s.ms.LastIndex()
		hi := min(m.applied, li)
		if s.pendingSnapshot() {
			return false
		}
		// only compact entries that storage holds identically to the logical log (acknowledged)
		if uo := s.l.UnstableOffset(); hi >= uo {
			if uo == 0 {
				return false
			}
			hi = uo - 1
		}
		if hi < fi {
			return false
		}
		i := fi
		if c.a == 1 {
			i = hi
		}
		if _, err := s.ms.CreateSnapshot(i, &pb.ConfState{Voters: []uint64{1}}, nil); err != nil {
			s.fail("CreateSnapshot(%d): %v", i, err)
			return true
		}
		if err := s.ms.Compact(i); err != nil {
			s.fail("Compact(%d): %v", i, err)
			return true
		}
		t, _ := m.term(i)
		m.ents = m.ents[i-m.baseI:]
		m.baseI, m.baseT = i, t
		m.sEnts = m.sEnts[i-m.sBaseI:]
		m.sBaseI, m.sBaseT = i, t
		s.logf("compact %d", i)
		s.stats["compactions"]++
	case 8: // incoming snapshot beyond commit: a = distance above commit (also while an earlier snapshot is still being persisted)
		if s.l.HasNextOrInProgressSnapshot() && len(s.q) == 0 {
			return false // never handed out: nothing in flight that could be acknowledged late
		}
		if len(s.q) > 3 {
			return false
		}
		i := m.committed + 1 + uint64(c.a)
		m.curTerm = max(m.curTerm, lastTermOf(m)) + 1
		m.epoch++
		sn := &pb.Snapshot{Metadata: &pb.SnapshotMetadata{Index: new(i), Term: new(m.curTerm), ConfState: &pb.ConfState{Voters: []uint64{1}}}}
		l.Restore(sn)
		m.baseI, m.baseT, m.ents = i, m.curTerm, nil
		m.committed = i
		m.handed = i
		s.logf("restore snapshot (%d,%d)", i, m.curTerm)
		s.stats["restores"]++
	case 10: // installing a snapshot that storage already covers must be refused and change nothing
		if m.sBaseI == 0 {
			return false
		}
		idx := m.sBaseI
		if c.a == 1 && idx > 1 {
			idx--
		}
		sn := &pb.Snapshot{Metadata: &pb.SnapshotMetadata{Index: new(idx), Term: new(m.sBaseT), ConfState: &pb.ConfState{Voters: []uint64{1}}}}
		if err := s.ms.ApplySnapshot(sn); err != raft.ErrSnapOutOfDate {
			s.fail("ApplySnapshot(index %d) on storage whose snapshot is at %d returned %v, want ErrSnapOutOfDate", idx, m.sBaseI, err)
			return true
		}
		if _, err := s.ms.CreateSnapshot(idx, nil, nil); err != raft.ErrSnapOutOfDate {
			s.fail("CreateSnapshot(index %d) on storage whose snapshot is at %d returned %v, want ErrSnapOutOfDate", idx, m.sBaseI, err)
			return true
		}
		if err := s.ms.Compact(idx); err != raft.ErrCompacted {
			s.fail("Compact(%d) on storage compacted at %d returned %v, want ErrCompacted", idx, m.sBaseI, err)
			return true
		}
		s.logf("stale snapshot install/create/compact at %d refused", idx)
		s.stats["stale-snapshot-ops"]++
	case 9: // acknowledgement for something that is not (or no longer) unstable: must be ignored
		idx := m.baseI + uint64(c.a)
		l.StableTo(idx, 99999)
		l.StableTo(m.last()+5, m.curTerm)
		s.logf("bogus acks at %d", idx)
	}
	return true
}

// key renders the abstract state for deduplication in the exhaustive search.
func (s *lsys) key() string {
	m := &s.m
	var sb strings.Builder
	fmt.Fprintf(&sb, "%d/%d|", m.baseI, m.baseT)
	for _, e := range m.ents {
		fmt.Fprintf(&sb, "%d,", e.term)
	}
	fmt.Fprintf(&sb, "|c%d a%d t%d h%d|s%d/%d:", m.committed, m.applied, m.curTerm, m.handed, m.sBaseI, m.sBaseT)
	for _, e := range m.sEnts {
		fmt.Fprintf(&sb, "%d,", e.term)
	}
	fmt.Fprintf(&sb, "|u%d/%d|", s.l.UnstableOffset(), s.l.OffsetInProgress())
	for _, b := range s.q {
		f, l, t := uint64(0), uint64(0), uint64(0)
		if len(b.ents) > 0 {
			f, l, t = b.ents[0].GetIndex(), b.ents[len(b.ents)-1].GetIndex(), b.ents[len(b.ents)-1].GetTerm()
		}
		fmt.Fprintf(&sb, "[%d-%d t%d s%v e%v p%v]", f, l, t, b.snap != nil, b.epoch == m.epoch, b.persisted)
	}
	return sb.String()
}

var logMenu = []choice{
	{0, 1, 0}, {0, 2, 0}, {0, 1, 1}, {0, 2, 1},
	{1, 0, 0}, {1, 0, 1}, {1, 0, 2}, {1, 1, 0}, {1, 1, 1}, {1, 1, 2}, {1, 2, 1}, {1, 2, 2},
	{2, 0, 0}, {3, 0, 0}, {4, 0, 0},
	{5, 0, 0}, {5, 1, 0}, {6, 0, 0}, {6, 1, 0},
	{7, 0, 0}, {7, 1, 0}, {8, 0, 0}, {8, 1, 0}, {9, 1, 0}, {10, 0, 0}, {10, 1, 0},
}

func runSeq(seq []choice, stats map[string]int) (s *lsys) {
	s = newLsys(stats)
	defer func() {
		if r := recover(); r != nil {
			s.fail("panic: %v", r)
		}
	}()
	for _, c := range seq {
		s.do(c)
	}
	return s
}

func cmdLogModel(args []string) int {
	fs := flag.NewFlagSet("logmodel", flag.ExitOnError)
	tier := fs.String("tier", "quick", "")
	seed := fs.Int64("seed", envSeed(), "")
	fs.Parse(args)
	raft.SetLogger(&raft.DefaultLogger{Logger: log.New(io.Discard, "", 0)})
	t0 := time.Now()
	depth := 5
	runs, steps := 3000, 200
	if *tier == "thorough" {
		depth, runs = 6, 40000
	}
	stats := map[string]int{}
	viol := 0
	report := func(s *lsys, what string) {
		viol++
		if viol <= 5 {
			path := fmt.Sprintf("%s/replays/C18-viol-%s-s%d-%d.txt", verifDir(), *tier, *seed, viol)
			from := max(0, len(s.trace)-60)
			writeFile(path, what+"\n"+s.failed+"\n"+strings.Join(s.trace[from:], "\n")+"\n")
			fmt.Printf("VIOLATION property=C18 replay=%s\n   %s: %s\n", path, what, s.failed)
		}
	}
	// ---- exhaustive over operation sequences up to `depth`, deduplicated by abstract state
	seen := map[string]bool{}
	frontier := [][]choice{nil}
	states, transitions, checks := 0, 0, 0
	exhaustive := true
	var sample []string
	for d := 0; d < depth && viol == 0; d++ {
		var next [][]choice
		for _, seq := range frontier {
			for _, c := range logMenu {
				base := runSeq(seq, stats)
				if base.failed != "" {
					continue
				}
				var applied bool
				func() {
					defer func() {
						if r := recover(); r != nil {
							base.fail("panic: %v", r)
						}
					}()
					applied = base.do(c)
					if applied {
						base.check()
					}
				}()
				if !applied && base.failed == "" {
					continue
				}
				transitions++
				checks += base.checks
				if base.failed != "" {
					report(base, fmt.Sprintf("sequence %v", append(append([]choice{}, seq...), c)))
					break
				}
				k := base.key()
				if !seen[k] {
					seen[k] = true
					states++
					ns := append(append([]choice{}, seq...), c)
					next = append(next, ns)
					if len(sample) < 2 && d == depth-1 && len(base.q) > 1 {
						sample = append(sample, fmt.Sprint(ns))
					}
				}
			}
			if viol > 0 {
				break
			}
		}
		frontier = next
	}
	// ---- long random sequences
	r := rand.New(rand.NewSource(*seed*7919 + 5))
	randChecks := 0
	for i := 0; i < runs && viol == 0; i++ {
		s := newLsys(stats)
		func() {
			defer func() {
				if r := recover(); r != nil {
					s.fail("panic: %v", r)
				}
			}()
			for j := 0; j < steps && s.failed == ""; j++ {
				var c choice
				switch k := r.Intn(100); {
				case k < 20:
					c = choice{0, 1 + r.Intn(2), r.Intn(3) / 2}
				case k < 38:
					c = choice{1, r.Intn(4), r.Intn(3)}
				case k < 53:
					c = choice{2, 0, 0}
				case k < 68:
					c = choice{3, 0, 0}
				case k < 82:
					c = choice{4, 0, 0}
				case k < 87:
					c = choice{5, r.Intn(2), 0}
				case k < 91:
					c = choice{6, r.Intn(2), 0}
				case k < 95:
					c = choice{7, r.Intn(2), 0}
				case k < 98:
					c = choice{8, r.Intn(3), 0}
				case k < 99:
					c = choice{9, r.Intn(4), 0}
				default:
					c = choice{10, r.Intn(2), 0}
				}
				if s.do(c) {
					s.check()
				}
			}
		}()
		randChecks += s.checks
		if s.failed != "" {
			report(s, fmt.Sprintf("random run %d", i))
		}
	}
	wall := time.Since(t0).Seconds()
	if len(sample) == 0 {
		sample = []string{"(no deep sample)"}
	}
	ev := &evidence{PropertyID: "C18", Tier: *tier, Seed: *seed, Level: "exploration", WallS: wall, Violations: viol,
		Coverage: map[string]any{
			"evaluations":         transitions + randChecks,
			"distinct_nontrivial": states,
			"exhaustive":          exhaustive && viol == 0,
			"states":              states,
			"transitions":         transitions,
			"random_runs":         runs,
			"random_checked_states": randChecks,
			"events":              stats,
			"rule": fmt.Sprintf("exhaustive: every sequence of up to %d operations from a menu of %d deterministic operations (append 1-2 entries in the same or a new term; maybeAppend at prev = commit+0..2 with 0-2 entries of a new term, i.e. overwrite-from-index; hand-out; persist oldest; acknowledge oldest (stale and ABA acknowledgements included when the precondition of stableTo holds); commit/apply by one or all; compact at lowest/highest legal index; snapshot restore above commit; bogus acknowledgements), deduplicated by abstract state (model log, storage model, cursors, in-flight batches); after every operation every query of C18 is compared with the model. Plus %d random sequences of %d operations. distinct_nontrivial = distinct abstract states reached by the exhaustive part.", depth, len(logMenu), runs, steps),
			"samples": []any{map[string]any{"operation_sequences": sample}},
		},
		Assumptions: []string{"the abstract log model in harness/cmd/rv/logmodel.go is correct", "acknowledgements are issued only under the documented precondition of unstable.stableTo"}}
	if err := writeEvidence(fmt.Sprintf("%s/C18.json", evidenceDir()), ev); err != nil {
		fmt.Println("cannot write evidence:", err)
		return 2
	}
	fmt.Printf("C18 %s seed=%d: exhaustive depth=%d states=%d transitions=%d; random runs=%d checked-states=%d; violations=%d wall=%.1fs stats=%v\n", *tier, *seed, depth, states, transitions, runs, randChecks, viol, wall, stats)
	if viol > 0 {
		return 1
	}
	return 0
}
