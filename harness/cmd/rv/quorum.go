package main

import (
	"flag"
	"fmt"
	"math"
	"math/rand"
	"time"

	"go.etcd.io/raft/v3/quorum"
	"go.etcd.io/raft/v3/tracker"

	"verif/model"
)

type ackMap map[uint64]uint64

func (a ackMap) AckedIndex(id uint64) (quorum.Index, bool) {
	v, ok := a[id]
	return quorum.Index(v), ok
}

func toMajority(ids []uint64) quorum.MajorityConfig {
	m := quorum.MajorityConfig{}
	for _, id := range ids {
		m[id] = struct{}{}
	}
	return m
}

func subsetIDs(mask int, universe []uint64) []uint64 {
	var out []uint64
	for i, id := range universe {
		if mask&(1<<i) != 0 {
			out = append(out, id)
		}
	}
	return out
}

func voteRes(r quorum.VoteResult) model.VoteResult {
	switch r {
	case quorum.VoteWon:
		return model.VoteWon
	case quorum.VoteLost:
		return model.VoteLost
	}
	return model.VotePending
}

// cmdQuorum decides C12: the real quorum package is executed on generated
// inputs and compared with the definition-level model.
func cmdQuorum(args []string) int {
	fs := flag.NewFlagSet("quorum", flag.ExitOnError)
	tier := fs.String("tier", "quick", "")
	seed := fs.Int64("seed", envSeed(), "")
	fs.Parse(args)
	t0 := time.Now()
	evals, nontriv := 0, 0
	var samples []any
	viol := 0
	report := func(f string, a ...any) {
		viol++
		if viol <= 5 {
			msg := fmt.Sprintf(f, a...)
			path := fmt.Sprintf("%s/replays/C12-viol-%s-s%d-%d.txt", verifDir(), *tier, *seed, viol)
			writeFile(path, msg+"\n")
			fmt.Printf("VIOLATION property=C12 replay=%s\n   %s\n", path, msg)
		}
	}
	checkIdx := func(c0, c1 []uint64, acked map[uint64]uint64, joint bool) {
		evals++
		var got, want uint64
		if joint {
			jc := quorum.JointConfig{toMajority(c0), nil}
			if c1 != nil {
				jc[1] = toMajority(c1)
			}
			got = uint64(jc.CommittedIndex(ackMap(acked)))
			want = model.JointCommitted(c0, c1, acked)
		} else {
			got = uint64(toMajority(c0).CommittedIndex(ackMap(acked)))
			want = model.MajorityCommitted(c0, acked)
		}
		if got != want {
			report("CommittedIndex: incoming=%v outgoing=%v acked=%v joint=%v: got %d, definition gives %d", c0, c1, acked, joint, got, want)
		}
		if want > 0 && want != math.MaxUint64 {
			nontriv++
			if len(samples) < 2 && len(c0) >= 3 && len(c1) >= 2 {
				samples = append(samples, map[string]any{"kind": "committed-index", "incoming": c0, "outgoing": c1, "acked": fmt.Sprint(acked), "result": got})
			}
		}
	}
	checkVote := func(c0, c1 []uint64, votes map[uint64]bool, joint bool) {
		evals++
		var got, want model.VoteResult
		if joint {
			jc := quorum.JointConfig{toMajority(c0), nil}
			if c1 != nil {
				jc[1] = toMajority(c1)
			}
			got = voteRes(jc.VoteResult(votes))
			want = model.JointVote(c0, c1, votes)
		} else {
			got = voteRes(toMajority(c0).VoteResult(votes))
			want = model.MajorityVote(c0, votes)
		}
		if got != want {
			report("VoteResult: incoming=%v outgoing=%v votes=%v joint=%v: got %d, definition gives %d (1=pending 2=lost 3=won)", c0, c1, votes, joint, got, want)
		}
		if want != model.VotePending {
			nontriv++
			if len(samples) < 4 && len(c0) >= 3 && len(c1) >= 2 && len(votes) >= 3 {
				samples = append(samples, map[string]any{"kind": "vote-result", "incoming": c0, "outgoing": c1, "votes": fmt.Sprint(votes), "result": got})
			}
		}
	}
	// The same arithmetic where raft applies it to a live configuration:
	// ProgressTracker.Committed / TallyVotes / QuorumActive / IsSingleton. A
	// learner with a huge Match, a yes vote and RecentActive is added and must
	// never count.
	trackerEvals := 0
	checkTracker := func(c0, c1 []uint64, acked map[uint64]uint64, votes map[uint64]bool) {
		trackerEvals++
		t := tracker.MakeProgressTracker(4, 0)
		t.Voters[0] = toMajority(c0)
		if len(c1) > 0 {
			t.Voters[1] = toMajority(c1)
		}
		for _, id := range append(append([]uint64{}, c0...), c1...) {
			if t.Progress[id] == nil {
				v, voted := votes[id]
				t.Progress[id] = &tracker.Progress{Match: acked[id], Next: acked[id] + 1, RecentActive: voted && v}
			}
		}
		// voters that are being demoted (outgoing only) are staged in LearnersNext
		// while the configuration is joint; they still count as voters
		in0 := map[uint64]bool{}
		for _, id := range c0 {
			in0[id] = true
		}
		for i, id := range c1 {
			if !in0[id] && (i+len(c0))%2 == 0 {
				if t.LearnersNext == nil {
					t.LearnersNext = map[uint64]struct{}{}
				}
				t.LearnersNext[id] = struct{}{}
			}
		}
		const learner = 999983
		t.Learners = map[uint64]struct{}{learner: {}}
		t.Progress[learner] = &tracker.Progress{Match: 1 << 40, Next: 1<<40 + 1, IsLearner: true, RecentActive: true}
		for id, v := range votes {
			t.RecordVote(id, v)
		}
		t.RecordVote(learner, true)
		if len(c0) > 0 || len(c1) > 0 {
			if got, want := t.Committed(), model.JointCommitted(c0, c1, acked); got != want {
				report("ProgressTracker.Committed: incoming=%v outgoing=%v match=%v: got %d, definition gives %d", c0, c1, acked, got, want)
			}
		}
		_, _, res := t.TallyVotes()
		if got, want := voteRes(res), model.JointVote(c0, c1, votes); got != want {
			report("ProgressTracker.TallyVotes: incoming=%v outgoing=%v votes=%v: got %d, definition gives %d (1=pending 2=lost 3=won)", c0, c1, votes, got, want)
		}
		active := func(id uint64) bool { return votes[id] }
		if got, want := t.QuorumActive(), model.HasQuorum(active, c0, c1); got != want {
			report("ProgressTracker.QuorumActive: incoming=%v outgoing=%v active=%v: got %v, definition gives %v", c0, c1, votes, got, want)
		}
		if got, want := t.IsSingleton(), len(c0) == 1 && len(c1) == 0; got != want {
			report("ProgressTracker.IsSingleton: incoming=%v outgoing=%v: got %v, want %v", c0, c1, got, want)
		}
	}
	// ---- exhaustive part: ids {1..5}
	uni := []uint64{1, 2, 3, 4, 5}
	ackVals := []int64{-1, 0, 1, 2, 3} // -1 = missing
	for m0 := 0; m0 < 32; m0++ {
		c0 := subsetIDs(m0, uni)
		for m1 := 0; m1 < 32; m1++ {
			c1 := subsetIDs(m1, uni)
			union := subsetIDs(m0|m1, uni)
			n := len(union)
			// all acked assignments over the union
			tot := 1
			for i := 0; i < n; i++ {
				tot *= len(ackVals)
			}
			for a := 0; a < tot; a++ {
				acked := map[uint64]uint64{}
				x := a
				for _, id := range union {
					v := ackVals[x%len(ackVals)]
					x /= len(ackVals)
					if v >= 0 {
						acked[id] = uint64(v)
					}
				}
				if m1 == 0 {
					checkIdx(c0, nil, acked, false)
				}
				checkIdx(c0, c1, acked, true)
			}
			tot = 1
			for i := 0; i < n; i++ {
				tot *= 3
			}
			for a := 0; a < tot; a++ {
				votes := map[uint64]bool{}
				x := a
				for _, id := range union {
					switch x % 3 {
					case 1:
						votes[id] = true
					case 2:
						votes[id] = false
					}
					x /= 3
				}
				if m1 == 0 {
					checkVote(c0, nil, votes, false)
				}
				checkVote(c0, c1, votes, true)
				if m0 != 0 {
					acked := map[uint64]uint64{}
					for i, id := range union {
						acked[id] = uint64((a/(i+1) + int(id)) % 4)
					}
					checkTracker(c0, c1, acked, votes)
				}
			}
		}
	}
	exhaustiveEvals := evals
	// ---- sampled part: sizes 6..12 (crosses the on-stack/alloc boundary at 7/8), huge ids and indexes
	r := rand.New(rand.NewSource(*seed*7919 + 17))
	nSample := 200000
	if *tier == "thorough" {
		nSample = 3000000
	}
	bigs := []uint64{0, 1, 2, 3, 1 << 31, 1 << 32, 1<<63 - 1, 1 << 63, math.MaxUint64 - 1, math.MaxUint64}
	for i := 0; i < nSample; i++ {
		mk := func() []uint64 {
			n := 6 + r.Intn(7)
			if r.Intn(10) == 0 {
				n = r.Intn(6)
			}
			seen := map[uint64]bool{}
			var out []uint64
			for len(out) < n {
				id := uint64(1 + r.Intn(20))
				if r.Intn(8) == 0 {
					id = bigs[3+r.Intn(len(bigs)-3)]
				}
				if id == 0 || seen[id] {
					continue
				}
				seen[id] = true
				out = append(out, id)
			}
			return out
		}
		c0, c1 := mk(), mk()
		if r.Intn(4) == 0 {
			c1 = nil
		}
		acked := map[uint64]uint64{}
		votes := map[uint64]bool{}
		for _, id := range append(append([]uint64{}, c0...), c1...) {
			switch r.Intn(5) {
			case 0:
			case 1:
				acked[id] = bigs[r.Intn(len(bigs))]
			default:
				acked[id] = uint64(r.Intn(6))
			}
			switch r.Intn(3) {
			case 0:
				votes[id] = true
			case 1:
				votes[id] = false
			}
		}
		checkIdx(c0, c1, acked, true)
		checkIdx(c0, nil, acked, false)
		checkVote(c0, c1, votes, true)
		checkVote(c0, nil, votes, false)
		if len(c0) > 0 {
			a2 := map[uint64]uint64{}
			for _, id := range append(append([]uint64{}, c0...), c1...) {
				a2[id] = acked[id]
			}
			checkTracker(c0, c1, a2, votes)
		}
	}
	wall := time.Since(t0).Seconds()
	ev := &evidence{PropertyID: "C12", Tier: *tier, Seed: *seed, Level: "exploration", WallS: wall, Violations: viol,
		Coverage: map[string]any{
			"evaluations":         evals,
			"distinct_nontrivial": nontriv,
			"exhaustive":          true,
			"exhaustive_evaluations": exhaustiveEvals,
			"sampled_evaluations": evals - exhaustiveEvals,
			"tracker_level_evaluations": trackerEvals,
			"rule": "(each input is also applied through tracker.ProgressTracker.Committed/TallyVotes/QuorumActive/IsSingleton with a learner that must not count) exhaustive: every pair (incoming, outgoing) of subsets of ids {1..5} (1024 pairs, including empty sets), every assignment of acknowledged index in {missing,0,1,2,3} and of vote in {yes,no,missing} to the ids of the union, for MajorityConfig (outgoing empty) and JointConfig; sampled (PRNG from VERIF_SEED): voter sets of 0..12 ids incl. ids and indexes up to 2^64-1. Every input is distinct by construction; non-trivial = the definition-level result is a real index (not 0, not 'no constraint') or a decided vote (won/lost). 'exhaustive' refers to the bounded part only.",
			"samples": samples,
		},
		Assumptions: []string{"harness/model/quorum.go states the definition of majority/joint commit index and vote result correctly"}}
	if err := writeEvidence(fmt.Sprintf("%s/C12.json", evidenceDir()), ev); err != nil {
		fmt.Println("cannot write evidence:", err)
		return 2
	}
	fmt.Printf("C12 %s seed=%d: evaluations=%d (exhaustive %d) nontrivial=%d violations=%d wall=%.1fs\n", *tier, *seed, evals, exhaustiveEvals, nontriv, viol, wall)
	if viol > 0 {
		return 1
	}
	return 0
}
