// Package racewl is a supplementary workload for properties C14/C19: the
// goroutine-based Node API (StartNode, concurrent Propose/ReadIndex/Status/
// Tick/TransferLeadership/ReportUnreachable/Stop) and MemoryStorage used from
// an application goroutine, run under the Go race detector. A data race is
// reported in the evidence file, not as a violation (no property speaks about
// races); a panic or diverging committed sequences fail the test.
package racewl
