package racewl

import (
	"context"
	"fmt"
	"io"
	"log"
	"math/rand"
	"sync"
	"testing"
	"time"

	"go.etcd.io/raft/v3"
	pb "go.etcd.io/raft/v3/raftpb"
	"google.golang.org/protobuf/proto"
)

type peer struct {
	id   uint64
	n    raft.Node
	ms   *raft.MemoryStorage
	in   chan []byte
	stop chan struct{}
	mu   sync.Mutex
	applied []string
}

func TestNodeAPIConcurrent(t *testing.T) {
	raft.SetLogger(&raft.DefaultLogger{Logger: log.New(io.Discard, "", 0)})
	const N = 3
	peers := map[uint64]*peer{}
	var rp []raft.Peer
	for i := uint64(1); i <= N; i++ {
		rp = append(rp, raft.Peer{ID: i})
	}
	for i := uint64(1); i <= N; i++ {
		ms := raft.NewMemoryStorage()
		c := &raft.Config{ID: i, ElectionTick: 10, HeartbeatTick: 1, Storage: ms, MaxSizePerMsg: 1024, MaxInflightMsgs: 16, PreVote: i%2 == 0, CheckQuorum: true,
			Logger: &raft.DefaultLogger{Logger: log.New(io.Discard, "", 0)}}
		p := &peer{id: i, ms: ms, in: make(chan []byte, 1024), stop: make(chan struct{})}
		p.n = raft.StartNode(c, rp)
		peers[i] = p
	}
	var wg sync.WaitGroup
	for _, p := range peers {
		p := p
		wg.Add(1)
		go func() { // ready loop
			defer wg.Done()
			rng := rand.New(rand.NewSource(int64(p.id)))
			tk := time.NewTicker(2 * time.Millisecond)
			defer tk.Stop()
			for {
				select {
				case <-p.stop:
					return
				case <-tk.C:
					p.n.Tick()
				case b := <-p.in:
					m := &pb.Message{}
					if err := proto.Unmarshal(b, m); err != nil {
						panic(err)
					}
					sctx, scancel := context.WithTimeout(context.Background(), 2*time.Millisecond)
					p.n.Step(sctx, m)
					scancel()
				case rd := <-p.n.Ready():
					p.ms.Append(rd.Entries)
					if rd.HardState != nil {
						p.ms.SetHardState(rd.HardState)
					}
					if !raft.IsEmptySnap(rd.Snapshot) {
						p.ms.ApplySnapshot(rd.Snapshot)
					}
					for _, m := range rd.Messages {
						if rng.Intn(20) == 0 {
							continue // drop
						}
						b, _ := proto.Marshal(m)
						select {
						case peers[m.GetTo()].in <- b:
						default:
						}
					}
					for _, e := range rd.CommittedEntries {
						if e.GetType() == pb.EntryConfChange {
							cc := &pb.ConfChange{}
							proto.Unmarshal(e.GetData(), cc)
							p.n.ApplyConfChange(cc)
						}
						p.mu.Lock()
						p.applied = append(p.applied, fmt.Sprintf("%d/%d/%s", e.GetIndex(), e.GetTerm(), e.GetData()))
						p.mu.Unlock()
					}
					p.n.Advance()
				}
			}
		}()
		for c := 0; c < 3; c++ { // client goroutines
			c := c
			wg.Add(1)
			go func() {
				defer wg.Done()
				rng := rand.New(rand.NewSource(int64(p.id)*100 + int64(c)))
				for i := 0; ; i++ {
					select {
					case <-p.stop:
						return
					default:
					}
					ctx, cancel := context.WithTimeout(context.Background(), 5*time.Millisecond)
					switch rng.Intn(6) {
					case 0, 1:
						p.n.Propose(ctx, []byte(fmt.Sprintf("c%d-%d-%d", p.id, c, i)))
					case 2:
						p.n.ReadIndex(ctx, []byte(fmt.Sprintf("r%d-%d-%d", p.id, c, i)))
					case 3:
						_ = p.n.Status()
					case 4:
						p.n.ReportUnreachable(uint64(1 + rng.Intn(N)))
					case 5:
						if rng.Intn(50) == 0 {
							p.n.TransferLeadership(ctx, p.id, uint64(1+rng.Intn(N)))
						}
					}
					cancel()
					time.Sleep(time.Duration(rng.Intn(300)) * time.Microsecond)
				}
			}()
		}
	}
	time.Sleep(3 * time.Second)
	for _, p := range peers {
		close(p.stop)
	}
	wg.Wait()
	for _, p := range peers {
		p.n.Stop()
	}
	// committed sequences must agree on the common prefix
	var ref []string
	for _, p := range peers {
		if len(p.applied) > len(ref) {
			ref = p.applied
		}
	}
	for _, p := range peers {
		for i, a := range p.applied {
			if a != ref[i] {
				t.Fatalf("node %d applied %q at position %d, other node %q", p.id, a, i, ref[i])
			}
		}
		t.Logf("node %d applied %d entries", p.id, len(p.applied))
	}
}
