package sim

import (
	"math"
	"strings"
	"testing"

	pb "go.etcd.io/raft/v3/raftpb"
	"google.golang.org/protobuf/proto"
)

// Directed scenarios that drive the simulator into the open known findings, to
// validate that the monitors report them and that the signature classifies
// them as KNOWN-FINDING (the undirected campaigns meet them too rarely to rely
// on for that). Run: cd /verif/harness && go test -tags verif ./sim/

func scenarioCfg(prop string, asyncNode uint64, durable bool) WorldCfg {
	cfg := WorldCfg{Seed: 42, Prop: prop, ElectionTick: 3, HeartbeatTick: 1, Universe: 3, IDs: []uint64{1, 2, 3},
		Voters: []uint64{1, 2, 3}, Durable: durable, Steps: 0, HealBound: 120, Nodes: map[uint64]NodeCfg{}, Prof: baseProfile()}
	for _, id := range cfg.IDs {
		cfg.Nodes[id] = NodeCfg{Async: id == asyncNode, MaxSizePerMsg: math.MaxUint64, MaxInflight: 256}
	}
	return cfg
}

// pumpAll runs Ready handling and deliveries until nothing is pending.
// Messages for which hold returns true stay in the network; the append thread of
// node `stalled` is not run.
func pumpAll(w *World, stalled uint64, hold func(*netMsg) bool) {
	for iter := 0; iter < 200; iter++ {
		busy := false
		for _, id := range w.ids {
			n := w.nodes[id]
			if !n.up() {
				continue
			}
			if n.cfg.Async {
				if n.rn.HasReady() {
					w.Exec(Action{K: "aready", N: id})
					busy = true
				}
				if id != stalled {
					for len(n.appQ) > 0 {
						w.Exec(Action{K: "appthr", N: id, F: true})
						busy = true
					}
				}
				for len(n.aplQ) > 0 {
					w.Exec(Action{K: "aplthr", N: id})
					busy = true
				}
				for len(n.selfApp) > 0 {
					w.Exec(Action{K: "self", N: id, A: 0})
					busy = true
				}
				for len(n.selfApl) > 0 {
					w.Exec(Action{K: "self", N: id, A: 1})
					busy = true
				}
				continue
			}
			if n.rd == nil && n.rn.HasReady() {
				w.Exec(Action{K: "ready", N: id})
			}
			if n.rd != nil {
				busy = true
				for _, k := range []string{"pents", "phs", "send", "apply", "advance"} {
					w.Exec(Action{K: k, N: id})
				}
			}
		}
		for _, id := range append([]int{}, w.order...) {
			nm := w.net[id]
			if nm == nil || (hold != nil && hold(nm)) {
				continue
			}
			w.Exec(Action{K: "deliver", A: uint64(id)})
			busy = true
		}
		if !busy {
			return
		}
	}
}

func TestScenarioF1bIsClassifiedAsKnown(t *testing.T) {
	KnownFindings["F1b"] = true
	defer delete(KnownFindings, "F1b")
	w := NewWorld(scenarioCfg("C04", 2, true), true)
	w.Exec(Action{K: "campaign", N: 1})
	pumpAll(w, 0, nil)
	for _, p := range []string{"p1k0", "p2k0", "p3k0"} {
		w.Exec(Action{K: "prop", N: 1, D: []byte(p)})
		pumpAll(w, 0, nil)
	}
	// entries that node 2 only holds in memory
	for _, p := range []string{"p4k0", "p5k0", "p6k0"} {
		w.Exec(Action{K: "prop", N: 1, D: []byte(p)})
	}
	pumpAll(w, 2, nil)
	if len(w.nodes[2].appQ) == 0 {
		t.Fatal("scenario: node 2 has no queued appends")
	}
	committed := w.mon.gLen
	// node 2 campaigns: MsgVote leaves, term and vote stay queued
	w.Exec(Action{K: "campaign", N: 2})
	w.Exec(Action{K: "aready", N: 2})
	isVote := func(nm *netMsg) bool { return nm.typ == pb.MsgVote }
	var toThree int
	for _, id := range w.order {
		if nm := w.net[id]; isVote(nm) && nm.to == 3 {
			toThree = id
		}
	}
	if toThree == 0 {
		t.Fatal("scenario: no MsgVote to node 3")
	}
	w.Exec(Action{K: "deliver", A: uint64(toThree)})
	for _, k := range []string{"ready", "pents", "phs", "send", "apply", "advance"} {
		w.Exec(Action{K: k, N: 3})
	}
	grant := 0
	for _, id := range w.order {
		if nm := w.net[id]; nm.typ == pb.MsgVoteResp && nm.to == 2 {
			grant = id
		}
	}
	if grant == 0 {
		t.Fatal("scenario: node 3 did not grant")
	}
	// drop everything else, crash node 2 with its queue, restart
	for _, id := range append([]int{}, w.order...) {
		if id != grant {
			w.Exec(Action{K: "drop", A: uint64(id)})
		}
	}
	w.Exec(Action{K: "crash", N: 2})
	_, hi := w.restartRange(w.nodes[2])
	w.Exec(Action{K: "restart", N: 2, A: hi})
	w.Exec(Action{K: "campaign", N: 2})
	w.Exec(Action{K: "aready", N: 2})
	for len(w.nodes[2].appQ) > 0 {
		w.Exec(Action{K: "appthr", N: 2, F: true})
	}
	for len(w.nodes[2].selfApp) > 0 {
		w.Exec(Action{K: "self", N: 2, A: 0})
	}
	for _, id := range append([]int{}, w.order...) {
		if id != grant {
			w.Exec(Action{K: "drop", A: uint64(id)})
		}
	}
	// the grant given to the first incarnation arrives
	w.Exec(Action{K: "deliver", A: uint64(grant)})
	if w.mon.taintF1b == "" {
		t.Fatalf("root event of F1b not recognised; log:\n%s", strings.Join(w.Log[max(0, len(w.Log)-30):], "\n"))
	}
	pumpAll(w, 0, nil)
	found := false
	for _, v := range w.Viol {
		t.Logf("%s known=%q: %s", v.Prop, v.Known, firstLineOf(v.Msg))
		if v.Known == "" {
			t.Errorf("violation not classified as known finding: %s: %s", v.Prop, v.Msg)
		}
		if v.Concerns("C04") {
			found = true
		}
	}
	if !found {
		t.Errorf("the monitors did not report the leader that lacks entries committed up to %d", committed)
	}
}

func firstLineOf(s string) string {
	if i := strings.IndexByte(s, '\n'); i >= 0 {
		return s[:i]
	}
	return s
}

func TestScenarioF6IsClassifiedAsKnown(t *testing.T) {
	KnownFindings["F6"] = true
	defer delete(KnownFindings, "F6")
	cfg := scenarioCfg("C02", 0, false) // volatile membership
	cfg.Voters = []uint64{1}
	cfg.SplitHS = true // hard state kept apart from the log: commit-only updates stay unsynced
	w := NewWorld(cfg, true)
	cc := func(typ pb.ConfChangeType, id uint64, ctx string) []byte {
		b, err := protoMarshal(&pb.ConfChangeV2{Changes: []*pb.ConfChangeSingle{{Type: typ.Enum(), NodeId: new(id)}}, Context: []byte(ctx)})
		if err != nil {
			t.Fatal(err)
		}
		return b
	}
	w.Exec(Action{K: "campaign", N: 1})
	pumpAll(w, 0, nil)
	w.Exec(Action{K: "propcc", N: 1, D: cc(pb.ConfChangeAddNode, 2, "cc1")})
	pumpAll(w, 0, nil)
	w.Exec(Action{K: "prop", N: 1, D: []byte("p1k0")})
	pumpAll(w, 0, nil)
	w.Exec(Action{K: "propcc", N: 1, D: cc(pb.ConfChangeRemoveNode, 1, "cc2")})
	pumpAll(w, 0, nil)
	for i := 0; i < 3; i++ {
		w.Exec(Action{K: "tick", N: 1})
		pumpAll(w, 0, nil)
	}
	n1 := w.nodes[1]
	if len(n1.disk.Buf) == 0 {
		t.Logf("note: node 1 has no unsynced hard state (durable commit %d)", n1.disk.Commit)
	}
	// node 1 crashes; the commit-only hard states it was told not to fsync are lost
	w.Exec(Action{K: "crash", N: 1, A: 0})
	for _, id := range append([]int{}, w.order...) {
		w.Exec(Action{K: "drop", A: uint64(id)})
	}
	lo, _ := w.restartRange(n1)
	w.Exec(Action{K: "restart", N: 1, A: lo}) // Applied unset/low: configuration of the snapshot
	if !n1.confRegressed {
		t.Fatalf("scenario: node 1 did not restart with a regressed configuration (durable commit %d, applied %d)", n1.disk.Commit, lo)
	}
	w.Exec(Action{K: "isolate", N: 1})
	w.Exec(Action{K: "campaign", N: 1})
	pumpAll(w, 0, nil)
	if w.mon.taintF6 == "" {
		t.Fatalf("root event of F6 not recognised (node 1 role %v); log:\n%s", n1.st.Role, strings.Join(w.Log[max(0, len(w.Log)-30):], "\n"))
	}
	for i := 0; i < 12 && w.nodes[2].st.Role.String() != "StateLeader"; i++ {
		w.Exec(Action{K: "tick", N: 2})
		pumpAll(w, 0, nil)
	}
	found := false
	for _, v := range w.Viol {
		t.Logf("%s known=%q: %s", v.Prop, v.Known, firstLineOf(v.Msg))
		if v.Known == "" {
			t.Errorf("violation not classified as known finding: %s: %s", v.Prop, v.Msg)
		}
		if v.Concerns("C02") {
			found = true
		}
	}
	if !found {
		t.Errorf("the monitors did not report two leaders in one term (node 1 term %d role %v, node 2 term %d role %v)", n1.st.Term, n1.st.Role, w.nodes[2].st.Term, w.nodes[2].st.Role)
	}
}

func protoMarshal(m *pb.ConfChangeV2) ([]byte, error) { return proto.Marshal(m) }
