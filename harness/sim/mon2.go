package sim

import (
	"bytes"
	"fmt"

	"go.etcd.io/raft/v3"
	pb "go.etcd.io/raft/v3/raftpb"
	"go.etcd.io/raft/v3/tracker"
	"google.golang.org/protobuf/proto"

	"verif/model"
)

// monFlow: C16 inflight window rebuilt from created appends and delivered
// acknowledgements (it never reads raft's Inflights except for invariant I5).
func (w *World) monFlow(n *node, kind string, in *pb.Message, pre, post *raft.VerifState, created []*pb.Message) {
	if post.Role != raft.StateLeader {
		if len(n.streams) > 0 {
			n.streams = map[uint64]*stream{}
		}
		return
	}
	if pre.Role != raft.StateLeader || pre.Term != post.Term {
		n.streams = map[uint64]*stream{}
	}
	// delivered acknowledgement frees the window
	if in != nil && in.GetType() == pb.MsgAppResp && !in.GetReject() && in.GetTerm() == post.Term {
		if s := n.streams[in.GetFrom()]; s != nil {
			k := 0
			for _, x := range s.sent {
				if x.last > in.GetIndex() {
					s.sent[k] = x
					k++
				}
			}
			s.sent = s.sent[:k]
		}
	}
	// a streaming epoch ends when the follower leaves StateReplicate
	for f, pr := range post.Progress {
		prePr, had := pre.Progress[f]
		if pr.State != tracker.StateReplicate || !had || prePr.State != tracker.StateReplicate {
			if pr.State == tracker.StateReplicate && (!had || prePr.State != tracker.StateReplicate) {
				// entering: window starts empty, appends created in this very call count below
				n.streams[f] = &stream{}
			} else {
				delete(n.streams, f)
			}
		}
	}
	for f := range n.streams {
		if _, ok := post.Progress[f]; !ok {
			delete(n.streams, f)
		}
	}
	// wire-level view of "a snapshot is pending for follower f": a MsgSnap was
	// created for f and since then neither an acknowledgement from f was
	// delivered nor the application reported the transfer's outcome
	if pre.Role != raft.StateLeader || pre.Term != post.Term {
		n.pendingSnapTo = map[uint64]bool{}
	}
	if in != nil && in.GetType() == pb.MsgAppResp && in.GetTerm() == post.Term {
		delete(n.pendingSnapTo, in.GetFrom())
	}
	if kind == "reportsnap" {
		delete(n.pendingSnapTo, w.mon.curReportTo)
	}
	if kind == "applycc" {
		// a peer removed, or removed and added again by one change, gets a fresh Progress
		for f := range n.pendingSnapTo {
			if pp, ok := post.Progress[f]; !ok || pp.State != tracker.StateSnapshot {
				delete(n.pendingSnapTo, f)
			}
		}
	}
	for _, c := range created {
		if c.GetType() == pb.MsgApp && n.pendingSnapTo[c.GetTo()] {
			w.violate("C16", []string{"C09"}, "leader %d created a MsgApp (prev index %d, %d entries) for %d although the snapshot it sent to it is still pending: no acknowledgement from it and no ReportSnapshot since (%s)", n.id, c.GetIndex(), len(c.GetEntries()), c.GetTo(), kind)
			delete(n.pendingSnapTo, c.GetTo())
		}
	}
	for _, c := range created {
		if c.GetType() == pb.MsgSnap {
			w.Stats["msgsnap-created"]++
			n.pendingSnapTo[c.GetTo()] = true
			continue
		}
		if c.GetType() != pb.MsgApp {
			continue
		}
		to := c.GetTo()
		prePr, had := pre.Progress[to]
		pr, ok := post.Progress[to]
		if !ok {
			continue
		}
		if had && prePr.State == tracker.StateSnapshot && pr.State == tracker.StateSnapshot {
			w.violate("C16", []string{"C09"}, "leader %d created MsgApp for %d while a snapshot is pending for it (%s)", n.id, to, kind)
		}
		if len(c.GetEntries()) == 0 {
			continue
		}
		var pay uint64
		for _, e := range c.GetEntries() {
			pay += uint64(len(e.GetData()))
		}
		if pr.State == tracker.StateReplicate {
			s := n.streams[to]
			if s == nil {
				s = &stream{}
				n.streams[to] = s
			}
			if len(s.sent) >= n.cfg.MaxInflight {
				w.violate("C16", nil, "leader %d -> %d: %d entry-bearing appends already outstanding when another was created, MaxInflightMsgs %d (%s)", n.id, to, len(s.sent), n.cfg.MaxInflight, kind)
			}
			if lim := n.cfg.MaxInflightBytes; lim != 0 {
				var b uint64
				for _, x := range s.sent {
					b += x.bytes
				}
				if b >= lim {
					w.violate("C16", nil, "leader %d -> %d: %d payload bytes already outstanding when another append was created, MaxInflightBytes %d (%s)", n.id, to, b, lim, kind)
				}
			}
			s.sent = append(s.sent, inflightRec{c.GetIndex() + uint64(len(c.GetEntries())), pay})
			w.Stats["stream-appends"]++
			if len(s.sent) > 1 {
				w.sample("C16", func() any {
					return map[string]any{"leader": n.id, "follower": to, "outstanding_appends": len(s.sent), "max_inflight_msgs": n.cfg.MaxInflight, "max_inflight_bytes": n.cfg.MaxInflightBytes, "entries_in_this_append": len(c.GetEntries()), "payload_bytes": pay, "max_size_per_msg": n.cfg.MaxSizePerMsg}
				})
			}
			if len(s.sent) == n.cfg.MaxInflight {
				w.Stats["stream-window-full"]++
			}
		} else {
			w.Stats["probe-appends"]++
		}
	}
	// I5: raft must not have lost track of outstanding appends
	for f, s := range n.streams {
		pr, ok := post.Progress[f]
		if !ok || pr.State != tracker.StateReplicate {
			continue
		}
		if len(s.sent) > pr.InflightCount {
			w.violate("C16", nil, "I5: leader %d -> %d: %d appends are outstanding on the wire but raft tracks only %d (%s)", n.id, f, len(s.sent), pr.InflightCount, kind)
		} else if len(s.sent) < pr.InflightCount {
			w.Stats["i5-oracle-below-raft"]++
		}
	}
}

// monSnapshot: C09 around the delivery of a MsgSnap.
func (w *World) monSnapshot(n *node, kind string, in *pb.Message, pre, post *raft.VerifState, created []*pb.Message) {
	if in == nil || in.GetType() != pb.MsgSnap {
		return
	}
	if in.GetTerm() < pre.Term {
		w.Stats["snap-delivered-stale-term"]++
		if post.FirstIndex != pre.FirstIndex || post.LastIndex != pre.LastIndex || post.Commit != pre.Commit {
			w.violate("C09", []string{"C07"}, "node %d changed its log on a MsgSnap of lower term %d < %d", n.id, in.GetTerm(), pre.Term)
		}
		return
	}
	md := in.GetSnapshot().GetMetadata()
	si, st := md.GetIndex(), md.GetTerm()
	installed := post.PendingSnapIndex == si && (pre.PendingSnapIndex != si || pre.FirstIndex != post.FirstIndex)
	logReplaced := post.FirstIndex != pre.FirstIndex || post.LastIndex != pre.LastIndex || post.BaseTerm != pre.BaseTerm
	matched := false
	if si >= pre.FirstIndex-1 && si <= pre.LastIndex {
		if si == pre.FirstIndex-1 {
			matched = pre.BaseTerm == st
		} else if e, ok := n.preShadowTerm(si); ok {
			matched = e == st
		}
	}
	inConf := confOf(md.GetConfState()).Members()[n.id]
	w.sample("C09", func() any {
		return map[string]any{"node": n.id, "snapshot": []uint64{si, st}, "pre_commit": pre.Commit, "pre_last": pre.LastIndex, "point_already_in_log": matched, "node_in_snapshot_config": inConf, "installed": installed, "post_commit": post.Commit}
	})
	switch {
	case si <= pre.Commit:
		w.Stats["snap-ignored-stale"]++
		if logReplaced || installed {
			w.violate("C09", []string{"C01"}, "node %d (commit %d) installed a snapshot at index %d <= its commit index", n.id, pre.Commit, si)
		}
		if post.Commit != pre.Commit {
			w.violate("C09", nil, "node %d changed commit %d->%d on a stale snapshot at %d", n.id, pre.Commit, post.Commit, si)
		}
	case !inConf:
		w.Stats["snap-ignored-not-in-config"]++
		if logReplaced || installed {
			w.violate("C09", nil, "node %d installed a snapshot at %d whose membership %s does not contain it", n.id, si, confOf(md.GetConfState()))
		}
	case matched && pre.Role == raft.StateFollower || matched && post.Role == raft.StateFollower && !installed:
		w.Stats["snap-fast-forward"]++
		if logReplaced || installed {
			w.violate("C09", []string{"C01"}, "node %d replaced its log by a snapshot (%d,%d) although that point is already in its log (last %d)", n.id, si, st, pre.LastIndex)
		}
		if post.Commit != si && post.Commit != pre.Commit {
			w.violate("C09", nil, "node %d: commit %d after fast-forward to snapshot %d", n.id, post.Commit, si)
		}
	default:
		if installed {
			w.Stats["snap-restored"]++
			if post.FirstIndex != si+1 || post.BaseTerm != st || post.LastIndex != si || post.Commit != si {
				w.violate("C09", nil, "node %d after installing snapshot (%d,%d): base=(%d,%d) last=%d commit=%d", n.id, si, st, post.FirstIndex-1, post.BaseTerm, post.LastIndex, post.Commit)
			}
			if got, want := confOf(post.Conf), confOf(md.GetConfState()); !got.Equal(want) {
				w.violate("C09", []string{"C10"}, "node %d: configuration after installing snapshot is %s, the snapshot says %s", n.id, got, want)
			}
		} else {
			w.Stats["snap-declined-other"]++
			if logReplaced {
				w.violate("C09", nil, "node %d changed its log on a MsgSnap it did not install", n.id)
			}
		}
	}
	// the acknowledgement that follows
	for _, c := range created {
		if c.GetType() == pb.MsgAppResp && !c.GetReject() && c.GetTo() == in.GetFrom() {
			if c.GetIndex() > post.LastIndex {
				w.violate("C09", []string{"C05"}, "node %d acknowledged index %d after a MsgSnap but its log ends at %d", n.id, c.GetIndex(), post.LastIndex)
			}
			if !installed && c.GetIndex() > post.Commit {
				w.violate("C09", []string{"C05", "C06"}, "node %d did not install the snapshot but acknowledged index %d above its commit index %d", n.id, c.GetIndex(), post.Commit)
			}
		}
	}
}

// preShadowTerm returns the term the node's log had at index i before the
// current call (the shadow has already been refreshed, so this consults the
// global map keyed by chain is not possible; we keep the previous terms).
func (n *node) preShadowTerm(i uint64) (uint64, bool) {
	if e, ok := n.prevAt(i); ok {
		return e.Term, true
	}
	return 0, false
}

func (n *node) prevAt(i uint64) (*sEnt, bool) {
	if i <= n.prevShadowBase || i > n.prevShadowBase+uint64(len(n.prevShadow)) {
		return nil, false
	}
	return &n.prevShadow[i-n.prevShadowBase-1], true
}

// sample records a witness for the evidence file (only for the property the
// world was generated for, at most three per world).
func (w *World) sample(prop string, f func() any) {
	if prop != w.Cfg.Prop || len(w.Samples) >= 3 {
		return
	}
	w.Samples = append(w.Samples, f())
}

// monConf: C10 gates.
func (w *World) monConf(n *node, kind string, in *pb.Message, pre, post *raft.VerifState) {
	// never start a campaign while a committed configuration change is unapplied
	if pre.Role == raft.StateFollower && (post.Role == raft.StateCandidate || post.Role == raft.StatePreCandidate) {
		for i := pre.Applied + 1; i <= pre.Commit; i++ {
			if e, ok := n.prevAt(i); ok && isConfType(e.Type) {
				w.violate("C10", nil, "node %d started a campaign (%s) with a committed but unapplied configuration change at %d (applied %d, commit %d)", n.id, kind, i, pre.Applied, pre.Commit)
				break
			}
		}
		w.Stats["campaign-starts"]++
	}
	if post.Role != raft.StateLeader {
		return
	}
	// I3: pendingConfIndex covers every configuration entry above applied
	for i := post.Applied + 1; i <= post.LastIndex; i++ {
		e, ok := n.shadowAt(i)
		if !ok {
			break
		}
		if isConfType(e.Type) && post.PendingConfIndex < i {
			w.violate("C10", nil, "I3: leader %d has an unapplied configuration entry at %d but pendingConfIndex=%d (applied %d) (%s)", n.id, i, post.PendingConfIndex, post.Applied, kind)
			break
		}
	}
	// entries appended by this leader in this call
	if post.LastIndex > pre.LastIndex && (pre.Role == raft.StateLeader || true) {
		for i := pre.LastIndex + 1; i <= post.LastIndex; i++ {
			e, ok := n.shadowAt(i)
			if !ok || !isConfType(e.Type) || e.Term != post.Term {
				continue
			}
			for j := post.Applied + 1; j < i; j++ {
				if o, ok := n.shadowAt(j); ok && isConfType(o.Type) {
					w.violate("C10", nil, "leader %d placed a configuration change at %d in its log while the one at %d may be unapplied (applied %d) (%s)", n.id, i, j, post.Applied, kind)
					break
				}
			}
			w.Stats["conf-entries-appended"]++
			if len(e.Data) == 0 {
				w.Stats["auto-leave-appended"]++
				if !pre.Conf.GetAutoLeave() && !post.Conf.GetAutoLeave() {
					w.violate("C20", []string{"C10"}, "leader %d appended an empty configuration entry at %d without being in an auto-leave joint configuration (%s)", n.id, i, kind)
				}
			}
		}
	}
}

// monProposals: C16 uncommitted-size limit (reference accounting) and C20
// (what a leader appends in one call).
func (w *World) monProposals(n *node, kind string, in *pb.Message, pre, post *raft.VerifState, created []*pb.Message) {
	m := w.mon
	if post.Role != raft.StateLeader {
		n.est = 0
		if post.LastIndex > pre.LastIndex && in != nil && in.GetType() != pb.MsgApp && in.GetType() != pb.MsgSnap {
			w.violate("C20", []string{"C03"}, "node %d (not leader) grew its log %d->%d on %s", n.id, pre.LastIndex, post.LastIndex, in.GetType())
		}
		if post.LastIndex > pre.LastIndex && in == nil && kind != "start" {
			w.violate("C20", []string{"C03"}, "node %d (not leader) grew its log %d->%d in %s", n.id, pre.LastIndex, post.LastIndex, kind)
		}
		// a follower that forwards a proposal must not also report it dropped,
		// and vice versa; checked through the proposal registry at the end
		return
	}
	newLead := pre.Role != raft.StateLeader || pre.Term != post.Term
	if newLead {
		n.est = 0
	}
	estBefore := n.est
	// reductions: entries acknowledged as applied
	var red uint64
	if in != nil && in.GetType() == pb.MsgStorageApplyResp {
		for _, e := range in.GetEntries() {
			red += uint64(len(e.GetData()))
		}
	}
	if kind == "advance" && m.advancing != nil {
		for _, e := range m.advancing.CommittedEntries {
			red += uint64(len(e.GetData()))
		}
	}
	var appended []*sEnt
	for i := pre.LastIndex + 1; i <= post.LastIndex; i++ {
		if e, ok := n.shadowAt(i); ok {
			appended = append(appended, e)
		}
	}
	var add uint64
	for _, e := range appended {
		add += uint64(len(e.Data))
		if w.keepLog {
			w.logf("leader %d appended (%d,%d) type=%v %q in %s", n.id, e.Index, e.Term, e.Type, trunc(e.Data), kind)
		}
		if e.Term != post.Term {
			w.violate("C03", []string{"C20"}, "leader %d of term %d appended entry %d with term %d (%s)", n.id, post.Term, e.Index, e.Term, kind)
		}
	}
	// what was proposed in this call
	var want [][]byte
	var wantTypes []pb.EntryType
	isProp := false
	switch {
	case kind == "propose":
		isProp = true
		want = m.curPayloads
		if m.curTypes != nil {
			wantTypes = m.curTypes
		} else {
			for range want {
				wantTypes = append(wantTypes, pb.EntryNormal)
			}
		}
	case kind == "proposecc":
		isProp = true
		want = [][]byte{m.curCC}
		wantTypes = []pb.EntryType{m.curCCType}
	case in != nil && in.GetType() == pb.MsgProp:
		isProp = true
		// raft rewrites neutralised entries inside the message: use the copy
		// taken before the call
		want, wantTypes = m.curInData, m.curInTypes
	}
	var s uint64
	for i, p := range want {
		if i < len(appended) && len(appended) == len(want) && isConfType(wantTypes[i]) && appended[i].Type == pb.EntryNormal && len(appended[i].Data) == 0 {
			continue // neutralised: counts as an empty entry
		}
		s += uint64(len(p))
	}
	if isProp && !newLead {
		if len(appended) > 0 {
			// accepted: payload, type and order preserved; a configuration
			// proposal may be neutralised into an empty normal entry
			if len(appended) != len(want) {
				w.violate("C20", nil, "leader %d appended %d entries for a proposal of %d (%s)", n.id, len(appended), len(want), kind)
			} else {
				for i, e := range appended {
					if isConfType(wantTypes[i]) && e.Type == pb.EntryNormal && len(e.Data) == 0 {
						m.neutralByTerm[post.Term]++
						w.Stats["conf-proposals-neutralised"]++
						continue
					}
					if e.Type != wantTypes[i] || !bytes.Equal(e.Data, want[i]) {
						w.violate("C20", nil, "leader %d appended entry %d (type %v, %q) for proposal element %d (type %v, %q)", n.id, e.Index, e.Type, trunc(e.Data), i, wantTypes[i], trunc(want[i]))
					}
				}
			}
			if lim := n.cfg.MaxUncommitted; lim != 0 && s > 0 {
				if !(estBefore == 0 || estBefore+s <= lim) {
					w.violate("C16", nil, "leader %d accepted a proposal of %d bytes with %d bytes uncommitted (MaxUncommittedEntriesSize %d) (%s)", n.id, s, estBefore, lim, kind)
				}
				w.Stats["proposals-accepted-under-limit"]++
			}
			if kind != "propose" && kind != "proposecc" {
				w.Stats["forwarded-proposals-appended"]++
				w.sample("C20", func() any {
					return map[string]any{"leader": n.id, "forwarded_by": in.GetFrom(), "entries": len(appended), "first_index": appended[0].Index, "first_payload": trunc(appended[0].Data)}
				})
			}
		} else {
			w.Stats["proposals-refused-at-leader"]++
			if lim := n.cfg.MaxUncommitted; lim != 0 && s > 0 && estBefore+s > lim && estBefore > 0 {
				w.Stats["proposals-refused-by-size-limit"]++
			}
		}
	} else if !isProp && len(appended) > 0 && !newLead {
		// raft adds entries on its own only as auto-leave changes
		for _, e := range appended {
			if !(isConfType(e.Type) && len(e.Data) == 0) {
				w.violate("C20", nil, "leader %d appended entry %d (type %v, %q) although nothing was proposed in this call (%s)", n.id, e.Index, e.Type, trunc(e.Data), kind)
			}
		}
	}
	if newLead {
		// exactly one empty entry per leadership
		bad := len(appended) == 0 || appended[0].Type != pb.EntryNormal || len(appended[0].Data) != 0
		for _, e := range appended[min(1, len(appended)):] {
			// the same call (Advance) may also acknowledge applied entries and
			// thereby trigger an automatic leave-joint proposal
			if !(isConfType(e.Type) && len(e.Data) == 0) {
				bad = true
			}
		}
		if bad {
			w.violate("C20", []string{"C04"}, "node %d became leader of term %d and appended %d entries (want exactly one empty entry, plus at most automatic leave-joint entries)", n.id, post.Term, len(appended))
		}
	}
	if red >= n.est {
		n.est = 0
	} else {
		n.est -= red
	}
	n.est += add
	if post.UncommittedSize > n.est {
		w.Stats["uncommitted-estimate-above-reference"]++
	}
}

// monReads: C11 production-side oracle.
func (w *World) monReads(n *node, kind string, in *pb.Message, pre, post *raft.VerifState, created []*pb.Message) {
	m := w.mon
	if w.Cfg.Lease {
		return // ReadOnlyLeaseBased relies on clocks; property C11 is about ReadOnlySafe
	}
	if kind == "readindex" && m.curRead != nil {
		if _, ok := n.readRecv[string(m.curRead)]; !ok {
			n.readRecv[string(m.curRead)] = w.clock
		}
	}
	type prod struct {
		ctx   string
		index uint64
	}
	var prods []prod
	for _, c := range created {
		if c.GetType() == pb.MsgReadIndexResp && len(c.GetEntries()) == 1 {
			prods = append(prods, prod{string(c.GetEntries()[0].GetData()), c.GetIndex()})
		}
	}
	if post.NReadStates > pre.NReadStates && kind != "ready" {
		// local read states were produced in this call; only leaders produce
		// them directly, followers receive them through MsgReadIndexResp
		if !(in != nil && in.GetType() == pb.MsgReadIndexResp) {
			prods = append(prods, prod{"", 0})
		}
	}
	if len(prods) == 0 {
		return
	}
	if pre.Role != raft.StateLeader && post.Role != raft.StateLeader {
		w.violate("C11", nil, "node %d (role %v) produced a read index response without being leader (%s)", n.id, post.Role, kind)
		return
	}
	// the leader must have committed an entry of its own term
	if e, ok := n.shadowAt(post.Commit); ok {
		if e.Term != post.Term {
			w.violate("C11", nil, "leader %d of term %d answered a read index request while the entry at its commit index %d has term %d (%s)", n.id, post.Term, post.Commit, e.Term, kind)
		}
	} else if post.Commit == post.FirstIndex-1 {
		if post.BaseTerm != post.Term {
			w.violate("C11", nil, "leader %d of term %d answered a read index request while its commit index %d (snapshot, term %d) is not of its term (%s)", n.id, post.Term, post.Commit, post.BaseTerm, kind)
		}
	}
	cs := post.Conf
	sole := len(cs.GetVoters()) == 1 && len(cs.GetVotersOutgoing()) == 0 && cs.GetVoters()[0] == n.id
	for _, p := range prods {
		w.Stats["read-responses-produced"]++
		if sole {
			w.Stats["read-responses-sole-voter"]++
			continue
		}
		if p.ctx == "" {
			// local read state without context identification: use the
			// weakest bound (earliest pending local request)
			continue
		}
		recv, ok := n.readRecv[p.ctx]
		if !ok {
			w.violate("C11", nil, "leader %d answered read request %q that it never received", n.id, p.ctx)
			continue
		}
		heard := func(id uint64) bool {
			if id == n.id {
				return true
			}
			s, ok := n.hbAck[id]
			return ok && s >= recv
		}
		if !model.HasQuorum(heard, voters(cs)...) {
			w.violate("C11", nil, "leader %d answered read request %q (received at step %d) without heartbeat responses, caused by heartbeats sent after that, from a majority: acks %v, configuration %s", n.id, p.ctx, recv, n.hbAck, confOf(cs))
		}
		if r := m.reads[p.ctx]; r != nil && p.index < r.maxCommit {
			w.violate("C11", nil, "leader %d answered read request %q with index %d below the commit index %d some node had when it was issued", n.id, p.ctx, p.index, r.maxCommit)
		}
	}
}

// ---------------------------------------------------------------- end of world

// finalChecks runs once per world after the schedule (and heal suffix).
func (w *World) finalChecks() {
	m := w.mon
	for _, id := range w.ids {
		w.checkHandedConfStates(w.nodes[id])
	}
	// C20: duplicates within one log
	for _, id := range w.ids {
		n := w.nodes[id]
		cnt := map[string]int{}
		for _, e := range n.disk.Ents {
			if e.Type == pb.EntryNormal && len(e.Data) > 0 {
				cnt[string(e.Data)]++
			}
		}
		if n.up() {
			cnt = map[string]int{}
			for _, e := range n.shadow {
				if e.Type == pb.EntryNormal && len(e.Data) > 0 {
					cnt[string(e.Data)]++
				}
			}
		}
		for d, c := range cnt {
			p := m.proposals[d]
			if p == nil {
				continue
			}
			allowed := p.delivered
			if p.atLeader && p.accepted > 0 {
				allowed++
			}
			if !p.atLeader && p.accepted > 0 && p.delivered == 0 {
				allowed = 1 // forwarded, delivery not observed (e.g. replayed)
			}
			if c > 1 && c > allowed {
				w.violate("C20", nil, "node %d holds payload %q %d times but it reached a leader only %d time(s)", n.id, trunc([]byte(d)), c, allowed)
			}
			if c > 1 {
				w.Stats["payload-duplicates-legit"]++
			}
		}
	}
	// C20: empty normal entries in the committed log per term
	emp := map[uint64]int{}
	for _, g := range m.G {
		if g.typ == pb.EntryNormal && g.dh == dhash(nil) && g.who != "boot" {
			emp[g.term]++
		}
	}
	for t, c := range emp {
		if c > 1+m.neutralByTerm[t] {
			w.violate("C20", nil, "term %d has %d empty normal entries in the committed log, expected at most 1 + %d neutralised configuration proposals", t, c, m.neutralByTerm[t])
		}
	}
}

func (w *World) sprintf(f string, a ...any) string { return fmt.Sprintf(f, a...) }

var _ = proto.Marshal
