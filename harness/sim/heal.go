package sim

import (
	"fmt"
	"sort"
	"strings"

	"go.etcd.io/raft/v3"
	pb "go.etcd.io/raft/v3/raftpb"
	"go.etcd.io/raft/v3/tracker"
	"google.golang.org/protobuf/proto"

	"verif/model"
)

// settle processes everything without faults until nothing is pending.
func (w *World) settle() bool {
	for iter := 0; iter < 20000; iter++ {
		if w.failed() {
			return true
		}
		busy := false
		for _, id := range w.ids {
			n := w.nodes[id]
			if !n.up() {
				continue
			}
			if n.cfg.Async {
				for guard := 0; n.up() && n.rn.HasReady() && guard < 1000; guard++ {
					busy = true
					w.doReadyAsync(n)
				}
				for n.up() && len(n.appQ) > 0 {
					busy = true
					w.doAppendThread(n, true)
				}
				for n.up() && len(n.aplQ) > 0 {
					busy = true
					w.doApplyThread(n)
				}
				for n.up() && (len(n.selfApp) > 0 || len(n.selfApl) > 0) {
					busy = true
					if len(n.selfApp) > 0 {
						w.doSelf(n, 0)
					} else {
						w.doSelf(n, 1)
					}
				}
			} else {
				if n.rd == nil && n.rn.HasReady() {
					w.doReadySync(n)
				}
				if n.up() && n.rd != nil {
					busy = true
					if !n.persistedEnt {
						w.doPersistEnts(n)
					}
					if n.up() && !n.persistedHS {
						w.persistHS(n, n.rd.HardState, n.rd.MustSync)
						n.persistedHS = true
					}
					if n.up() && !n.sent {
						w.doSendSync(n)
					}
					if n.up() && !n.applied {
						n.applied = true
						w.applyEntries(n, n.rd.CommittedEntries)
					}
					if n.up() && n.rd != nil {
						w.doAdvance(n)
					}
				}
			}
			for n.up() && len(n.snapReports) > 0 {
				busy = true
				to := n.snapReports[0]
				n.snapReports = n.snapReports[1:]
				w.mon.curReportTo = to
				w.call(n, "reportsnap", nil, func() { n.rn.ReportSnapshot(to, raft.SnapshotFinish) })
			}
		}
		ids := w.order
		w.order = nil
		for _, id := range ids {
			busy = true
			nm := w.net[id]
			delete(w.net, id)
			if nm == nil {
				continue
			}
			t := w.nodes[nm.to]
			if t == nil || !t.up() {
				continue
			}
			msg := &pb.Message{}
			if err := proto.Unmarshal(nm.data, msg); err != nil {
				panic("harness: " + err.Error())
			}
			w.preDeliver(t, msg, nm)
			w.curCause = nm.id
			if w.keepLog {
				w.logf("deliver #%d %s", nm.id, raft.DescribeMessage(msg, nil))
			}
			w.call(t, "step", msg, func() { _ = t.rn.Step(msg) })
			w.curCause = 0
		}
		if !busy {
			return true
		}
	}
	return false
}

func (w *World) topLeader() *node {
	var best *node
	for _, id := range w.ids {
		n := w.nodes[id]
		if n.up() && n.st.Role == raft.StateLeader && (best == nil || n.st.Term > best.st.Term) {
			best = n
		}
	}
	return best
}

// converged implements the conjunction of C15.
func (w *World) converged() (bool, string) {
	l := w.topLeader()
	if l == nil {
		return false, "no leader"
	}
	ls := l.st
	mem := confOf(ls.Conf).Members()
	leaders := 0
	for _, id := range w.ids {
		n := w.nodes[id]
		if !n.up() {
			if mem[id] {
				return false, fmt.Sprintf("member %d is not running", id)
			}
			continue
		}
		if n.st.Role == raft.StateLeader {
			leaders++
		}
		if !mem[id] {
			return false, fmt.Sprintf("removed node %d is still running", id)
		}
		st := n.st
		if st.Term != ls.Term {
			return false, fmt.Sprintf("member %d at term %d, leader at %d", id, st.Term, ls.Term)
		}
		if st.LastIndex != ls.LastIndex || st.Commit != ls.Commit || st.Applied != ls.Applied || st.Commit != st.LastIndex || st.Applied != st.Commit {
			return false, fmt.Sprintf("member %d last/commit/applied=%d/%d/%d, leader %d/%d/%d", id, st.LastIndex, st.Commit, st.Applied, ls.LastIndex, ls.Commit, ls.Applied)
		}
		if c, ok := n.shadowChain(st.LastIndex); ok {
			if lc, ok2 := l.shadowChain(ls.LastIndex); ok2 && lc != c {
				return false, fmt.Sprintf("member %d log content differs from the leader's", id)
			}
		}
		if st.UnstableLen != 0 || st.PendingSnapIndex != 0 {
			return false, fmt.Sprintf("member %d has unacknowledged unstable entries/snapshot", id)
		}
		if !confOf(st.Conf).Equal(confOf(ls.Conf)) {
			return false, fmt.Sprintf("member %d configuration %s, leader %s", id, confOf(st.Conf), confOf(ls.Conf))
		}
	}
	for id := range mem {
		if w.nodes[id] == nil {
			return false, fmt.Sprintf("member %d never started", id)
		}
	}
	if leaders != 1 {
		return false, fmt.Sprintf("%d leaders", leaders)
	}
	if ls.Conf.GetAutoLeave() {
		return false, "auto-leave joint configuration still joint"
	}
	if ls.LeadTransferee != 0 {
		return false, "leadership transfer pending"
	}
	if ls.NUnconfirmedReads != 0 || ls.NPendingReadIndex != 0 {
		// Not part of the property's statement (unanswered reads are retried by
		// clients); observed when the voter set shrinks to the leader alone
		// while reads wait for heartbeat acknowledgements. Counted only.
		w.Stats["heal-reads-left-queued-max"] = 1
	}
	for id, pr := range ls.Progress {
		if id == l.id {
			continue
		}
		if pr.State == tracker.StateSnapshot {
			return false, fmt.Sprintf("progress of %d in StateSnapshot", id)
		}
		if pr.Match < ls.LastIndex {
			return false, fmt.Sprintf("progress of %d: match %d < last %d", id, pr.Match, ls.LastIndex)
		}
	}
	return true, ""
}

// retireAll stops nodes outside the leader's configuration once every member
// has applied everything committed.
func (w *World) retireAll() {
	l := w.topLeader()
	if l == nil {
		return
	}
	ls := l.st
	mem := confOf(ls.Conf).Members()
	if !w.Cfg.EagerRetire {
		for _, id := range w.ids {
			n := w.nodes[id]
			if mem[id] && (!n.up() || n.st.Applied < ls.Commit) {
				return
			}
		}
		if ls.Applied < ls.Commit {
			return
		}
	}
	for _, id := range w.ids {
		if n := w.nodes[id]; !mem[id] && n.up() {
			w.retire(n)
		}
	}
}

type healStart struct {
	noLeader, twoLeaders, fullWindow, pendingSnap, transfer, divergent, stuckHigherTerm, queuedAppend, downNodes bool
}

func (w *World) classifyHealStart() {
	leaders := 0
	var maxLeadTerm uint64
	for _, id := range w.ids {
		n := w.nodes[id]
		if !n.up() {
			if !n.retired {
				w.Stats["heal-start-down-node"]++
			}
			continue
		}
		if n.st.Role == raft.StateLeader {
			leaders++
			maxLeadTerm = max(maxLeadTerm, n.st.Term)
			if n.st.LeadTransferee != 0 {
				w.Stats["heal-start-transfer-pending"]++
			}
			for _, pr := range n.st.Progress {
				if pr.State == tracker.StateSnapshot {
					w.Stats["heal-start-pending-snapshot"]++
				}
				if pr.InflightFull {
					w.Stats["heal-start-full-window"]++
				}
			}
		}
		if len(n.appQ) > 0 {
			w.Stats["heal-start-queued-append"]++
		}
		if n.st.LastIndex > n.st.Commit && n.st.Role != raft.StateLeader {
			w.Stats["heal-start-uncommitted-tail"]++
		}
	}
	switch {
	case leaders == 0:
		w.Stats["heal-start-no-leader"]++
	case leaders >= 2:
		w.Stats["heal-start-two-leaders"]++
	}
	for _, id := range w.ids {
		n := w.nodes[id]
		if n.up() && n.st.Role != raft.StateLeader && n.st.Term > maxLeadTerm && leaders > 0 {
			w.Stats["heal-start-higher-term-node"]++
		}
	}
}

// healSuffix is the fault-free suffix that decides C15 (bounded progress).
func (w *World) healSuffix() {
	if w.failed() {
		return
	}
	w.healing = true
	w.classifyHealStart()
	w.cut = map[[2]uint64]bool{}
	for _, id := range w.ids {
		n := w.nodes[id]
		if !n.up() && !n.retired && (n.everStarted || w.memberOfLatest(id)) {
			_, hi := w.restartRange(n)
			w.start(n, hi, false)
		}
	}
	E := w.Cfg.ElectionTick
	bound := w.Cfg.HealBound * E
	if !w.settle() {
		w.violate("C15", nil, "fault-free suffix does not quiesce%s", w.describe())
		return
	}
	ticks := 0
	why := ""
	probeRR := 0
	for ; ticks < bound && !w.failed(); ticks++ {
		w.retireAll()
		ok, reason := w.converged()
		why = reason
		if ok {
			break
		}
		for _, id := range w.ids {
			n := w.nodes[id]
			if n.up() {
				w.call(n, "tick", nil, func() { n.rn.Tick() })
			}
		}
		if ticks%E == E-1 {
			// one probe proposal per election timeout at some live member
			var live []*node
			for _, id := range w.ids {
				if w.nodes[id].up() {
					live = append(live, w.nodes[id])
				}
			}
			if len(live) > 0 {
				n := live[probeRR%len(live)]
				probeRR++
				w.healSeq++
				w.doPropose(n, [][]byte{[]byte(fmt.Sprintf("h%dk0", w.healSeq))}, false)
			}
		}
		if !w.settle() {
			w.violate("C15", nil, "fault-free suffix does not quiesce%s", w.describe())
			return
		}
	}
	if w.failed() {
		return
	}
	et := (ticks + E - 1) / E
	w.Stats["heal-et-sum"] += et
	ok, reason := w.converged()
	if ok {
		if et > w.Stats["heal-et-max"] {
			w.Stats["heal-et-max"] = et
		}
		w.Stats["heal-converged"]++
		w.sample("C15", func() any {
			st := map[string]int{}
			for k, v := range w.Stats {
				if strings.HasPrefix(k, "heal-start-") {
					st[k] = v
				}
			}
			l := w.topLeader()
			return map[string]any{"start_conditions": st, "election_timeouts_to_converge": et, "leader": l.id, "term": l.st.Term, "log_length": l.st.LastIndex, "config": confOf(l.st.Conf).String()}
		})
		w.finalProbes()
		return
	}
	why = reason
	// classify documented exceptions
	if k := w.classifyStall(); strings.HasPrefix(k, "F10") {
		v := Violation{Prop: "C15", Msg: fmt.Sprintf("not converged %d election timeouts after faults stopped: %s%s", w.Cfg.HealBound, why, w.describe()), Step: w.step, Known: k}
		w.Viol = append(w.Viol, v)
		w.Stats["heal-known-f10"]++
		return
	}
	if w.mon.twoVoterExc {
		w.Stats["heal-two-voter-exception"]++
		return
	}
	if w.Cfg.EagerRetire && w.staleQuorumStall() {
		w.Stats["heal-eager-retire-stale-quorum"]++
		return
	}
	if !w.Cfg.Durable && w.mon.taintF6 != "" {
		w.Stats["heal-after-f6"]++
		return
	}
	v := Violation{Prop: "C15", Msg: fmt.Sprintf("not converged %d election timeouts after faults stopped: %s%s", w.Cfg.HealBound, why, w.describe()), Step: w.step}
	if k := w.classifyStall(); k != "" {
		v.Known = k
	}
	w.Viol = append(w.Viol, v)
	if v.Concerns(w.Cfg.Prop) {
		w.nOwn++
	}
}

func (w *World) memberOfLatest(id uint64) bool {
	_, mem, ok := w.latestCommittedConf()
	return ok && mem[id]
}

// staleQuorumStall: some live member's active configuration has a voter set
// without a live majority (the general form of the README's two-voter caveat,
// only possible when removed nodes are stopped before every member learned of
// their removal).
func (w *World) staleQuorumStall() bool {
	for _, id := range w.ids {
		n := w.nodes[id]
		if !n.up() {
			continue
		}
		live := func(id uint64) bool { o := w.nodes[id]; return o != nil && o.up() }
		if !model.HasQuorum(live, voters(n.st.Conf)...) {
			return true
		}
	}
	return false
}

// classifyStall matches a non-converged final state against known findings.
func (w *World) classifyStall() string {
	if KnownFindings["F10"] {
		if why := w.refusedByRemovedNodes(); why != "" {
			return "F10: " + why
		}
	}
	if !KnownFindings["F4"] {
		return ""
	}
	l := w.topLeader()
	if l == nil {
		return ""
	}
	for _, id := range w.ids {
		n := w.nodes[id]
		if n.up() && n.st.Term > l.st.Term && !n.cfg.CheckQuorum && !n.cfg.PreVote {
			return fmt.Sprintf("F4: node %d (neither CheckQuorum nor PreVote) is stuck at term %d above leader %d's term %d", id, n.st.Term, l.id, l.st.Term)
		}
	}
	return ""
}

func promotableIn(st *raft.VerifState) bool {
	for _, set := range voters(st.Conf) {
		for _, id := range set {
			if id == st.ID {
				return true
			}
		}
	}
	return false
}

// refusedByRemovedNodes recognises the election deadlock of finding F10: there
// is no leader, and no node that may campaign can collect a quorum of its own
// (stale, usually joint) configuration without the vote of a live node that
// may not campaign itself (it was removed or demoted according to its own,
// newer configuration) and that refuses because its log is more up to date.
func (w *World) refusedByRemovedNodes() string {
	if w.topLeader() != nil {
		return ""
	}
	blockers := map[uint64]bool{}
	anyCandidate := false
	for _, id := range w.ids {
		m := w.nodes[id]
		if !m.up() || !promotableIn(&m.st) {
			continue
		}
		anyCandidate = true
		grants := func(x uint64) bool {
			o := w.nodes[x]
			if o == nil || !o.up() {
				return false
			}
			if x == id {
				return true
			}
			upToDate := m.st.LastTerm > o.st.LastTerm || (m.st.LastTerm == o.st.LastTerm && m.st.LastIndex >= o.st.LastIndex)
			if !upToDate && !promotableIn(&o.st) {
				blockers[x] = true
			}
			return upToDate
		}
		if model.HasQuorum(grants, voters(m.st.Conf)...) {
			return "" // this node can win: the stall has another cause
		}
	}
	if !anyCandidate || len(blockers) == 0 {
		return ""
	}
	var bs []uint64
	for b := range blockers {
		bs = append(bs, b)
	}
	sort.Slice(bs, func(i, j int) bool { return bs[i] < bs[j] })
	return fmt.Sprintf("no electable node: every node that may campaign needs the vote of removed/demoted node(s) %v whose log is more up to date", bs)
}

// finalProbes: proposals accepted after convergence are committed and applied
// by every member.
func (w *World) finalProbes() {
	l := w.topLeader()
	if l == nil {
		return
	}
	E := w.Cfg.ElectionTick
	var accepted [][]byte
	members := confOf(l.st.Conf).Members()
	ids := make([]uint64, 0, len(members))
	for id := range members {
		ids = append(ids, id)
	}
	sort.Slice(ids, func(i, j int) bool { return ids[i] < ids[j] })
	for i := 0; i < 3; i++ {
		w.healSeq++
		p := []byte(fmt.Sprintf("f%dk0", w.healSeq))
		target := l
		if i == 2 && len(ids) > 1 {
			for _, id := range ids {
				if id != l.id {
					target = w.nodes[id]
					break
				}
			}
		}
		before := w.Stats["proposals-accepted"]
		w.doPropose(target, [][]byte{p}, false)
		if w.Stats["proposals-accepted"] > before && target == l {
			accepted = append(accepted, p)
		}
		w.settle()
	}
	for t := 0; t < 3*E && !w.failed(); t++ {
		for _, id := range w.ids {
			n := w.nodes[id]
			if n.up() {
				w.call(n, "tick", nil, func() { n.rn.Tick() })
			}
		}
		w.settle()
	}
	if w.failed() {
		return
	}
	for _, p := range accepted {
		var at uint64
		for i, g := range w.mon.delivered {
			if g.dh == dhash(p) {
				at = i
			}
		}
		if at == 0 {
			w.violate("C15", nil, "probe %q accepted by leader %d after convergence was never applied%s", p, l.id, w.describe())
			return
		}
		for _, id := range ids {
			n := w.nodes[id]
			if n == nil || !n.up() || n.appIndex < at {
				w.violate("C15", nil, "probe %q (index %d) accepted after convergence was not applied by member %d%s", p, at, id, w.describe())
				return
			}
		}
		w.Stats["heal-probes-applied"]++
	}
	if ok, why := w.converged(); !ok {
		w.violate("C15", nil, "group left the converged state without faults: %s%s", why, w.describe())
	}
}
