package sim

import (
	"encoding/binary"
	"fmt"
	"hash/fnv"

	"go.etcd.io/raft/v3"
	pb "go.etcd.io/raft/v3/raftpb"
	"google.golang.org/protobuf/proto"

	"verif/model"
)

// dEnt is one durable log entry with its chain hash.
type dEnt struct {
	Index, Term uint64
	Type        pb.EntryType
	Data        []byte
	Chain       uint64
}

type dWrite struct {
	ents []*pb.Entry
	hs   *pb.HardState
}

// Disk is the harness-owned durable state of one node: a synced layer and an
// ordered buffer of unsynced writes. A crash keeps a prefix of the buffer.
type Disk struct {
	HasHS              bool
	Term, Vote, Commit uint64

	SnapIndex, SnapTerm uint64
	SnapChain           uint64
	SnapState           uint64
	SnapConf            *pb.ConfState
	Ents                []dEnt // Ents[i].Index == SnapIndex+1+i

	Buf     []dWrite
	SplitHS bool

	// durable application state
	DurApplied uint64
	CStar      uint64                    // index of the last configuration entry (or snapshot) applied
	ConfAt     map[uint64]*pb.ConfState  // ConfState after applying index
	MConfAt    map[uint64]model.Conf     // application's own membership model after applying index
	StateAt    map[uint64]uint64         // application state hash after applying index
	MaxConfIdx uint64                    // highest configuration index any incarnation applied
}

func newDisk() *Disk {
	return &Disk{ConfAt: map[uint64]*pb.ConfState{}, MConfAt: map[uint64]model.Conf{}, StateAt: map[uint64]uint64{}}
}

func chainStep(prev, term uint64, typ pb.EntryType, data []byte) uint64 {
	h := fnv.New64a()
	var b [8]byte
	binary.LittleEndian.PutUint64(b[:], prev)
	h.Write(b[:])
	binary.LittleEndian.PutUint64(b[:], term)
	h.Write(b[:])
	b[0] = byte(typ)
	h.Write(b[:1])
	h.Write(data)
	return h.Sum64()
}

func stateStep(prev, index uint64, typ pb.EntryType, data []byte) uint64 {
	h := fnv.New64a()
	var b [8]byte
	binary.LittleEndian.PutUint64(b[:], prev)
	h.Write(b[:])
	binary.LittleEndian.PutUint64(b[:], index)
	h.Write(b[:])
	b[0] = byte(typ) + 7
	h.Write(b[:1])
	h.Write(data)
	return h.Sum64()
}

func (d *Disk) lastIndex() uint64 { return d.SnapIndex + uint64(len(d.Ents)) }
func (d *Disk) firstIndex() uint64 { return d.SnapIndex + 1 }

func (d *Disk) termAt(i uint64) (uint64, bool) {
	if i == d.SnapIndex {
		return d.SnapTerm, true
	}
	if i < d.SnapIndex || i > d.lastIndex() {
		return 0, false
	}
	return d.Ents[i-d.SnapIndex-1].Term, true
}

func (d *Disk) chainAt(i uint64) (uint64, bool) {
	if i == d.SnapIndex {
		return d.SnapChain, true
	}
	if i < d.SnapIndex || i > d.lastIndex() {
		return 0, false
	}
	return d.Ents[i-d.SnapIndex-1].Chain, true
}

func (d *Disk) entAt(i uint64) *dEnt {
	if i <= d.SnapIndex || i > d.lastIndex() {
		return nil
	}
	return &d.Ents[i-d.SnapIndex-1]
}

// appendSynced writes entries into the synced layer with MemoryStorage.Append
// semantics (truncate from the first new index).
func (d *Disk) appendSynced(es []*pb.Entry) {
	if len(es) == 0 {
		return
	}
	first := d.firstIndex()
	last := es[0].GetIndex() + uint64(len(es)) - 1
	if last < first {
		return
	}
	if first > es[0].GetIndex() {
		es = es[first-es[0].GetIndex():]
	}
	off := es[0].GetIndex() - d.SnapIndex - 1
	if off > uint64(len(d.Ents)) {
		panic(fmt.Sprintf("harness: disk append gap: last %d, append at %d", d.lastIndex(), es[0].GetIndex()))
	}
	d.Ents = d.Ents[:off:off]
	prev, _ := d.chainAt(es[0].GetIndex() - 1)
	for _, e := range es {
		c := chainStep(prev, e.GetTerm(), e.GetType(), e.GetData())
		d.Ents = append(d.Ents, dEnt{Index: e.GetIndex(), Term: e.GetTerm(), Type: e.GetType(), Data: append([]byte(nil), e.GetData()...), Chain: c})
		prev = c
	}
}

func (d *Disk) setHSSynced(hs *pb.HardState) {
	d.HasHS = true
	d.Term, d.Vote, d.Commit = hs.GetTerm(), hs.GetVote(), hs.GetCommit()
}

// flush applies the first k buffered writes to the synced layer and discards
// the rest.
func (d *Disk) flush(k int) {
	if k > len(d.Buf) {
		k = len(d.Buf)
	}
	for _, w := range d.Buf[:k] {
		d.appendSynced(w.ents)
		if w.hs != nil {
			d.setHSSynced(w.hs)
		}
	}
	d.Buf = nil
}

// write performs one write; sync=true flushes the buffer first (WAL order).
// With SplitHS the hard state lives in a file of its own: a synced write of
// log entries alone does not make earlier unsynced hard-state writes durable.
func (d *Disk) write(es []*pb.Entry, hs *pb.HardState, sync bool) {
	if hs != nil && raft.IsEmptyHardState(hs) {
		hs = nil
	}
	if len(es) == 0 && hs == nil {
		if sync && !d.SplitHS {
			d.flush(len(d.Buf))
		}
		return
	}
	if d.SplitHS && sync && hs == nil {
		// entries go straight to the log file; buffered hard states stay buffered
		d.appendSynced(es)
		return
	}
	w := dWrite{ents: cloneEnts(es)}
	if hs != nil {
		w.hs = proto.Clone(hs).(*pb.HardState)
	}
	d.Buf = append(d.Buf, w)
	if sync {
		d.flush(len(d.Buf))
	}
}

// installSnapshot replaces the log by the snapshot (always synced).
func (d *Disk) installSnapshot(index, term, chain, state uint64, cs *pb.ConfState) {
	d.flush(len(d.Buf))
	d.SnapIndex, d.SnapTerm, d.SnapChain, d.SnapState = index, term, chain, state
	d.SnapConf = proto.Clone(cs).(*pb.ConfState)
	d.Ents = nil
}

// compact drops entries up to index i (i must be in the log).
func (d *Disk) compact(i uint64, state uint64, cs *pb.ConfState) {
	e := d.entAt(i)
	if e == nil {
		panic(fmt.Sprintf("harness: compact %d outside disk log (%d,%d]", i, d.SnapIndex, d.lastIndex()))
	}
	term, chain := e.Term, e.Chain
	rest := append([]dEnt(nil), d.Ents[i-d.SnapIndex:]...)
	d.SnapIndex, d.SnapTerm, d.SnapChain, d.SnapState = i, term, chain, state
	d.SnapConf = proto.Clone(cs).(*pb.ConfState)
	d.Ents = rest
}

func (d *Disk) hardState() *pb.HardState {
	if !d.HasHS {
		return nil
	}
	return &pb.HardState{Term: new(d.Term), Vote: new(d.Vote), Commit: new(d.Commit)}
}

// confLookup returns the recorded ConfState in force after applying index i.
func (d *Disk) confLookup(i uint64) (uint64, *pb.ConfState) {
	var best uint64
	var cs *pb.ConfState
	for k, v := range d.ConfAt {
		if k <= i && (cs == nil || k >= best) {
			best, cs = k, v
		}
	}
	if cs == nil {
		return 0, &pb.ConfState{}
	}
	return best, proto.Clone(cs).(*pb.ConfState)
}

func (d *Disk) mconfLookup(i uint64) (uint64, model.Conf) {
	var best uint64
	var mc model.Conf
	found := false
	for k, v := range d.MConfAt {
		if k <= i && (!found || k >= best) {
			best, mc, found = k, v, true
		}
	}
	if !found {
		return 0, model.NewConf(nil, nil, nil, nil, false)
	}
	return best, mc.Clone()
}

func snapData(state, chain uint64) []byte {
	b := make([]byte, 16)
	binary.LittleEndian.PutUint64(b[:8], state)
	binary.LittleEndian.PutUint64(b[8:], chain)
	return b
}

func parseSnapData(b []byte) (state, chain uint64, ok bool) {
	if len(b) != 16 {
		return 0, 0, false
	}
	return binary.LittleEndian.Uint64(b[:8]), binary.LittleEndian.Uint64(b[8:]), true
}

func cloneEnts(es []*pb.Entry) []*pb.Entry {
	out := make([]*pb.Entry, len(es))
	for i, e := range es {
		out[i] = proto.Clone(e).(*pb.Entry)
	}
	return out
}

// toMemoryStorage rebuilds a MemoryStorage from the synced layer (the README
// restart recipe).
func (d *Disk) toMemoryStorage() *raft.MemoryStorage {
	ms := raft.NewMemoryStorage()
	if d.SnapIndex > 0 || d.SnapConf != nil {
		cs := d.SnapConf
		if cs == nil {
			cs = &pb.ConfState{}
		}
		must(ms.ApplySnapshot(&pb.Snapshot{Data: snapData(d.SnapState, d.SnapChain),
			Metadata: &pb.SnapshotMetadata{Index: new(d.SnapIndex), Term: new(d.SnapTerm), ConfState: proto.Clone(cs).(*pb.ConfState)}}))
	}
	if len(d.Ents) > 0 {
		es := make([]*pb.Entry, len(d.Ents))
		for i, e := range d.Ents {
			es[i] = &pb.Entry{Index: new(e.Index), Term: new(e.Term), Type: e.Type.Enum(), Data: append([]byte(nil), e.Data...)}
		}
		must(ms.Append(es))
	}
	if hs := d.hardState(); hs != nil {
		must(ms.SetHardState(hs))
	}
	return ms
}

func must(err error) {
	if err != nil {
		panic("harness: " + err.Error())
	}
}

func confOf(cs *pb.ConfState) model.Conf {
	if cs == nil {
		cs = &pb.ConfState{}
	}
	return model.NewConf(cs.GetVoters(), cs.GetVotersOutgoing(), cs.GetLearners(), cs.GetLearnersNext(), cs.GetAutoLeave())
}
