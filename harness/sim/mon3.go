package sim

import (
	"encoding/binary"
	"math"

	"go.etcd.io/raft/v3"
	pb "go.etcd.io/raft/v3/raftpb"

	"verif/model"
)

// monReadOnlyModel is a reference model of the leader's ReadIndex confirmation
// bookkeeping (ReadOnlySafe), fed only from what crosses the RawNode boundary:
// the read positions the leader puts into its heartbeats (their maximum is the
// number of requests accepted so far in this leadership term) and the positions
// echoed by heartbeat responses delivered to it. The number of confirmed
// requests must equal, after every heartbeat response, the largest position
// acknowledged by a majority of each voter set (the leader acknowledges every
// position itself), never decreasing, and must not change at any other time.
// Observed through the hook as accepted - len(unconfirmedReads). A surplus
// breaks C11 (a request answered without a quorum), a deficit C12 (the quorum
// computation is fed something else than what the voters acknowledged).
func (w *World) monReadOnlyModel(n *node, kind string, in *pb.Message, pre, post *raft.VerifState, created []*pb.Message) {
	if post.Role != raft.StateLeader {
		return
	}
	if pre.Role != raft.StateLeader || pre.Term != post.Term {
		n.roAcks, n.roTotal, n.roConf, n.roOff = map[uint64]uint64{}, 0, 0, false
	}
	if n.roOff || n.roAcks == nil {
		return
	}
	sawCtx := false
	for _, c := range created {
		if c.GetType() == pb.MsgHeartbeat && len(c.GetContext()) == 8 {
			sawCtx = true
			if p := binary.LittleEndian.Uint64(c.GetContext()); p > n.roTotal {
				n.roTotal = p
			}
		}
	}
	if in != nil && in.GetType() == pb.MsgHeartbeatResp && in.GetTerm() == post.Term && len(in.GetContext()) == 8 {
		if _, ok := pre.Progress[in.GetFrom()]; ok {
			if p := binary.LittleEndian.Uint64(in.GetContext()); p > n.roAcks[in.GetFrom()] {
				n.roAcks[in.GetFrom()] = p
			}
			n.roAcks[n.id] = n.roTotal
			v := voters(pre.Conf)
			if c := model.JointCommitted(v[0], v[1], n.roAcks); c != math.MaxUint64 && c > n.roConf {
				n.roConf = c
			}
			w.Stats["readonly-model-acks"]++
		}
	}
	unconf := uint64(post.NUnconfirmedReads)
	grewUnseen := pre.Role == raft.StateLeader && pre.Term == post.Term && post.NUnconfirmedReads > pre.NUnconfirmedReads && !sawCtx
	if n.roTotal < unconf || grewUnseen {
		// requests were accepted without a heartbeat carrying their position
		// (no peer to send one to): the model cannot follow, stop judging
		n.roOff = true
		w.Stats["readonly-model-off"]++
		return
	}
	got := n.roTotal - unconf
	if got != n.roConf {
		dir, also := "more", "C12"
		prop := "C11"
		if got < n.roConf {
			dir, also, prop = "fewer", "C11", "C12"
		}
		w.violate(prop, []string{also}, "leader %d (term %d) has confirmed %d of %d accepted read requests, %s than the %d that a majority of each voter set acknowledged: echoed positions %v, configuration %s (%s)", n.id, post.Term, got, n.roTotal, dir, n.roConf, n.roAcks, confOf(post.Conf), kind)
		n.roConf = got
	}
	if n.roTotal > 0 {
		w.Stats["readonly-model-checks"]++
	}
}
