// Package sim is a deterministic discrete-event simulator that drives real
// go.etcd.io/raft/v3 RawNodes under hostile schedules while monitors watch
// every API-boundary event and hooked state dump (see /verif/DESIGN.md).
package sim

import (
	"encoding/json"
	"fmt"
	"math"

	pb "go.etcd.io/raft/v3/raftpb"
)

// NodeCfg is the per-node part of raft.Config that the generator varies.
type NodeCfg struct {
	Async             bool   `json:"async"`
	PreVote           bool   `json:"prevote"`
	CheckQuorum       bool   `json:"checkq"`
	StepDownOnRemoval bool   `json:"stepdown"`
	DisableFwd        bool   `json:"nofwd"`
	MaxSizePerMsg     uint64 `json:"maxsize"`
	MaxCommittedSize  uint64 `json:"maxcommitted"` // 0 = unset
	MaxUncommitted    uint64 `json:"maxuncommitted"`
	MaxInflight       int    `json:"inflight"`
	MaxInflightBytes  uint64 `json:"inflightbytes"`
}

// Profile holds the scheduler weights of one world.
type Profile struct {
	Name string `json:"name"`
	// class weights
	WTick, WDeliver, WNet, WRead, WPropose, WMisc, WCrash, WReady, WStorage, WSelf int
	// percentages inside classes
	DropPct, DupPct, StalePct, CrashPct, AppLagPct, CompactPct, CCPct, TransferPct, BigPct, CampaignPct int
	FIFOPct                                                                                            int // chance that a delivery takes the oldest message
	RestartPct                                                                                         int // chance per pick of a down node to restart it
	ReadyLagPct                                                                                        int // chance that a node's Ready is not taken when chosen (messages pile up between Readys)
	FavourPct                                                                                          int // hostile phases with a stalled node: chance that an entry-bearing MsgApp to any *other* node is lost (uncommitted tails reach only the slow node; with rival leaders this is what overwrites and restores one index)
	SelfStallPct                                                                                       int // chance per hostile phase that one async node's storage acknowledgements are held back (written, but not yet stepped back into raft) for the phase and beyond
	CalmMin, HostileMin                                                                                int // phase lengths (scheduler steps): calm in [CalmMin, 3*CalmMin], hostile in [HostileMin, 4*HostileMin]
}

// WorldCfg is everything that defines a world besides the scheduler's PRNG.
type WorldCfg struct {
	Seed          int64              `json:"seed"`
	Prop          string             `json:"prop"`
	ElectionTick  int                `json:"election_tick"`
	HeartbeatTick int                `json:"heartbeat_tick"`
	Universe      int                `json:"universe"`
	IDs           []uint64           `json:"ids"` // the node ids of the universe (IDs[i-1] is the i-th id)
	Voters        []uint64           `json:"voters"`
	Learners      []uint64           `json:"learners"`
	Durable       bool               `json:"durable_membership"`
	Legacy        bool               `json:"legacy_bootstrap"`
	EagerRetire   bool               `json:"eager_retire"`
	Steps         int                `json:"steps"`
	HealBound     int                `json:"heal_bound_et"`
	Nodes         map[uint64]NodeCfg `json:"nodes"`
	Prof          Profile            `json:"profile"`
	NoHeal        bool               `json:"no_heal,omitempty"`
	SplitHS       bool               `json:"hard_state_in_separate_file,omitempty"` // unsynced hard-state writes are not made durable by a later fsync of log entries only
	Lease         bool               `json:"lease_based_reads,omitempty"` // nodes with CheckQuorum use ReadOnlyLeaseBased; the C11 oracles are off in such worlds
}

// Action is one scheduler step. Every random choice is recorded in it so that
// a trace can be re-executed without the PRNG.
type Action struct {
	K string   `json:"k"`
	N uint64   `json:"n,omitempty"`
	A uint64   `json:"a,omitempty"`
	B uint64   `json:"b,omitempty"`
	F bool     `json:"f,omitempty"`
	D []byte   `json:"d,omitempty"`
	L [][]byte `json:"l,omitempty"`
}

func (a Action) String() string {
	b, _ := json.Marshal(a)
	return string(b)
}

// Violation is a monitor verdict "violated".
type Violation struct {
	Prop  string   `json:"prop"`           // owning property
	Also  []string `json:"also,omitempty"` // other properties this event also refutes
	Msg   string   `json:"msg"`
	Step  int      `json:"step"`
	Known string   `json:"known,omitempty"` // id of a known finding whose signature matches
}

func (v Violation) Concerns(prop string) bool {
	if v.Prop == prop {
		return true
	}
	for _, a := range v.Also {
		if a == prop {
			return true
		}
	}
	return false
}

const noLimit = math.MaxUint64

func isConfType(t pb.EntryType) bool {
	return t == pb.EntryConfChange || t == pb.EntryConfChangeV2
}

func u64s(x []uint64) string { return fmt.Sprint(x) }
