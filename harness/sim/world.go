package sim

import (
	"fmt"
	"io"
	"log"
	"sort"
	"strings"

	"go.etcd.io/raft/v3"
	pb "go.etcd.io/raft/v3/raftpb"
	"google.golang.org/protobuf/proto"

	"verif/model"
)

// msgMeta is harness metadata attached to every message raft creates, from
// the call that created it to the hand-over to the network.
type msgMeta struct {
	createStep int
	cause      int // id of the delivered network message whose Step created it (0 = local action)
	typ        pb.MessageType
	to         uint64
	term       uint64
	index      uint64
	reject     bool
	inc        int
	// for acknowledgements: chain hash of the sender's log at index when created
	ackChain   uint64
	ackChainOK bool
}

type netMsg struct {
	id       int
	from, to uint64
	fromInc  int
	data     []byte
	typ      pb.MessageType
	term     uint64
	meta     msgMeta
	sendStep int
}

type appendWork struct {
	msg     *pb.Message
	orig    []*pb.Entry // deep copy of msg.Entries taken when the message was handed out
	metas   []msgMeta // parallel to msg.Responses (zero meta for the MsgStorageAppendResp)
	written bool      // entries already written (crash point between entries and hard state)
}

type selfMsg struct {
	data []byte
	meta msgMeta
}

// shadow entry of a node's logical log
type sEnt struct {
	Index, Term uint64
	Type        pb.EntryType
	Data        []byte
	Chain       uint64
}

type node struct {
	id   uint64
	cfg  NodeCfg
	disk *Disk
	ms   *raft.MemoryStorage
	rn   *raft.RawNode
	inc  int
	everStarted bool
	retired     bool

	// Ready/Advance mode
	rd           *raft.Ready
	rdEnts       []*pb.Entry // deep copies taken at hand-out time
	rdCommitted  []*pb.Entry
	rdMetas      []msgMeta
	persistedEnt bool
	persistedHS  bool
	sent         bool
	applied      bool

	// async mode
	appQ    []*appendWork
	aplQ    []*pb.Message
	aplOrig [][]*pb.Entry
	selfApp []selfMsg
	selfApl []selfMsg

	snapReports []uint64
	handedCS    []handedCS
	heldMsgs    []*pb.Message // the Messages slice of the last Ready, as handed out (same backing array)
	heldPtrs    []*pb.Message // its elements at hand-out time
	heldBytes   [][]byte      // and their encodings

	// application state machine (volatile copy; durable copy lives in disk)
	appIndex uint64
	appState uint64
	mconf    model.Conf

	// outbox metadata, parallel to raft.msgs / raft.msgsAfterAppend
	outNow, outAfter []msgMeta

	// monitor state
	st         raft.VerifState // last post dump
	shadow     []sEnt          // logical log as of last dump; shadow[i].Index == shadowBase+1+i
	shadowBase uint64
	shadowBaseChain uint64
	shadowBaseOK bool
	prevShadow []sEnt
	prevShadowBase uint64
	epoch      int
	lastRole   raft.StateType
	lastTerm   uint64
	startTerm  uint64
	expTerm, expVote, expCommit uint64
	applyNext  uint64
	snapOutstanding bool
	hsExposed  int
	confRegressed bool
	agreeUpTo  uint64
	ticksSinceLeader int
	readRecv   map[string]int // ctx -> earliest step this incarnation received the request
	leadTicks  int
	lastHeard  map[uint64]int
	cqHeard    map[uint64]bool
	roAcks     map[uint64]uint64 // reference model of the leader's read confirmation state
	roTotal    uint64
	roConf     uint64
	roOff      bool
	hbAck      map[uint64]int // peer -> max createStep of a heartbeat whose response was delivered in this leadership
	grants     map[uint64]bool
	answers    map[uint64]bool // vote answers delivered in the current (pre-)candidacy, first answer per voter
	pregrants  map[uint64]bool
	est        uint64 // C16 reference uncommitted size
	maxAck     map[uint64]uint64
	streams    map[uint64]*stream
	leadTerm   uint64
	leaderSince int
	pendingSnapTo map[uint64]bool
}

type stream struct {
	sent []inflightRec
}
type inflightRec struct {
	last  uint64
	bytes uint64
}

// World is one simulated cluster with its monitors.
type World struct {
	Cfg   WorldCfg
	nodes map[uint64]*node
	ids   []uint64

	net     map[int]*netMsg
	order   []int
	nextMsg int
	old     []*netMsg
	sentLog map[int]msgMeta
	cut     map[[2]uint64]bool

	step  int
	clock int // logical time: advances with every call into a node and every applied entry
	seq   int
	healSeq int
	hostile  bool
	lastRead  map[uint64][]byte
	burstNode uint64
	burstLeft int
	stallNode uint64 // generator state: node whose append acknowledgements are held back until stallEnd
	stallEnd  int
	stallStart int
	rivalA, rivalB uint64 // rival-leaders profile: the leader at the start of the window and its rival
	rivalStage int
	phaseEnd int
	Trace []Action
	Log   []string
	keepLog bool
	lg    raft.Logger

	curCause int

	Viol  []Violation
	nOwn, nOther int
	Stats map[string]int
	Inconclusive []string

	mon *monState
	Samples []any
	healing bool
	sig uint64 // schedule signature
}

type panicLogger struct {
	*raft.DefaultLogger
}

func newLogger() raft.Logger {
	return &raft.DefaultLogger{Logger: log.New(io.Discard, "", 0)}
}

func (w *World) logf(f string, a ...any) {
	if w.keepLog {
		w.Log = append(w.Log, fmt.Sprintf("%d: ", w.step)+fmt.Sprintf(f, a...))
	}
}

func (w *World) violate(prop string, also []string, f string, a ...any) {
	v := Violation{Prop: prop, Also: also, Step: w.step}
	own := v.Concerns(w.Cfg.Prop)
	if own {
		if w.nOwn >= 4 {
			return
		}
		w.nOwn++
	} else {
		// violations of other properties are recorded (each check reports only
		// its own) but do not end the world: their consequences may be what
		// this world's property is about
		if w.nOther >= 3 {
			return
		}
		w.nOther++
	}
	v.Msg = fmt.Sprintf(f, a...)
	v.Known = w.classifyKnown(&v)
	w.Viol = append(w.Viol, v)
	w.logf("VIOLATION %s: %s", prop, v.Msg)
}

func (w *World) inconclusive(f string, a ...any) {
	if len(w.Inconclusive) < 8 {
		w.Inconclusive = append(w.Inconclusive, fmt.Sprintf(f, a...))
	}
}

// failed: a violation that concerns the property this world was generated for
// ends the world.
func (w *World) failed() bool { return w.nOwn > 0 }

// NewWorld builds the initial cluster.
func NewWorld(cfg WorldCfg, keepLog bool) *World {
	w := &World{Cfg: cfg, nodes: map[uint64]*node{}, net: map[int]*netMsg{}, sentLog: map[int]msgMeta{},
		cut: map[[2]uint64]bool{}, lastRead: map[uint64][]byte{}, Stats: map[string]int{}, keepLog: keepLog, lg: newLogger(), nextMsg: 1}
	w.mon = newMonState()
	members := append(append([]uint64{}, cfg.Voters...), cfg.Learners...)
	sort.Slice(members, func(i, j int) bool { return members[i] < members[j] })
	for _, id := range members {
		n := w.newNode(id)
		if !cfg.Legacy {
			cs := &pb.ConfState{Voters: append([]uint64{}, cfg.Voters...), Learners: append([]uint64{}, cfg.Learners...)}
			n.disk.installSnapshot(2, 1, bootChain, bootState, cs)
			n.disk.DurApplied = 2
			n.disk.ConfAt[2] = cs
			n.disk.MConfAt[2] = confOf(cs)
			n.disk.StateAt[2] = bootState
			n.disk.CStar = 2
			n.disk.MaxConfIdx = 2
		} else {
			n.disk.StateAt[0] = bootState
			n.disk.SnapChain = bootChain
			n.disk.SnapState = bootState
		}
	}
	if !cfg.Legacy {
		w.mon.confG[2] = confOf(&pb.ConfState{Voters: cfg.Voters, Learners: cfg.Learners}).String()
		w.mon.seedBoot(2, 1)
	}
	for _, id := range members {
		w.start(w.nodes[id], w.nodes[id].disk.DurApplied, true)
	}
	return w
}

const (
	bootChain uint64 = 0x9e3779b97f4a7c15
	bootState uint64 = 0x243f6a8885a308d3
)

func (w *World) newNode(id uint64) *node {
	nc, ok := w.Cfg.Nodes[id]
	if !ok {
		panic(fmt.Sprintf("harness: no config for node %d", id))
	}
	n := &node{id: id, cfg: nc, disk: newDisk()}
	n.disk.SplitHS = w.Cfg.SplitHS
	w.nodes[id] = n
	w.ids = append(w.ids, id)
	sort.Slice(w.ids, func(i, j int) bool { return w.ids[i] < w.ids[j] })
	return n
}

// csStorage is the Storage handed to raft: MemoryStorage plus the contract
// details of DESIGN.md section 3 (ConfState for the chosen Applied, on-demand
// snapshots at the application's applied index).
type csStorage struct {
	*raft.MemoryStorage
	cs *pb.ConfState
	n  *node
	w  *World
}

func (s csStorage) InitialState() (*pb.HardState, *pb.ConfState, error) {
	hs, _, err := s.MemoryStorage.InitialState()
	return hs, proto.Clone(s.cs).(*pb.ConfState), err
}

func (s csStorage) Snapshot() (*pb.Snapshot, error) {
	n := s.n
	li, _ := s.MemoryStorage.LastIndex()
	i := min(n.appIndex, li)
	if hs, _, _ := s.MemoryStorage.InitialState(); hs != nil {
		i = min(i, hs.GetCommit())
	}
	fi, _ := s.MemoryStorage.FirstIndex()
	if i+1 < fi {
		return s.MemoryStorage.Snapshot()
	}
	t, err := s.MemoryStorage.Term(i)
	if err != nil {
		return s.MemoryStorage.Snapshot()
	}
	st, ok := n.disk.StateAt[i]
	if !ok {
		return s.MemoryStorage.Snapshot()
	}
	ch, ok := n.chainAtMS(i)
	if !ok {
		return s.MemoryStorage.Snapshot()
	}
	s.w.Stats["snapshots-served"]++
	if s.w.step%17 == 3 && !s.w.healing {
		s.w.Stats["snapshots-unavailable"]++
		return nil, raft.ErrSnapshotTemporarilyUnavailable
	}
	_, cs := n.disk.confLookup(i)
	return &pb.Snapshot{Data: snapData(st, ch), Metadata: &pb.SnapshotMetadata{Index: new(i), Term: new(t), ConfState: cs}}, nil
}

// chainAtMS returns the chain hash at index i of the node's persisted log
// (synced or buffered), from the shadow of raft's log which covers it.
func (n *node) chainAtMS(i uint64) (uint64, bool) {
	if c, ok := n.shadowChain(i); ok {
		return c, true
	}
	return n.disk.chainAt(i)
}

func (n *node) shadowChain(i uint64) (uint64, bool) {
	if i == n.shadowBase && n.shadowBaseOK {
		return n.shadowBaseChain, true
	}
	if i <= n.shadowBase || i > n.shadowBase+uint64(len(n.shadow)) {
		return 0, false
	}
	return n.shadow[i-n.shadowBase-1].Chain, true
}

func (n *node) up() bool { return n.rn != nil }

// start (re)starts a node from its disk with the given Applied.
func (w *World) start(n *node, applied uint64, first bool) {
	d := n.disk
	d.flush(0) // anything still buffered was lost by the crash action already; be safe
	if w.Cfg.Durable && d.CStar > 0 {
		// durable membership: applied implies committed; forward the commit index
		if d.lastIndex() < d.CStar {
			panic(fmt.Sprintf("harness: cstar %d beyond durable log %d at node %d", d.CStar, d.lastIndex(), n.id))
		}
		if !d.HasHS {
			if d.CStar > d.SnapIndex {
				d.setHSSynced(&pb.HardState{Term: new(uint64(0)), Vote: new(uint64(0)), Commit: new(d.CStar)})
				w.Stats["commit-forwarded"]++
			}
		} else if d.Commit < d.CStar {
			d.Commit = d.CStar
			w.Stats["commit-forwarded"]++
		}
	}
	n.ms = d.toMemoryStorage()
	cidx, cs := d.confLookup(applied)
	_, mc := d.mconfLookup(applied)
	n.confRegressed = cidx < d.MaxConfIdx
	if n.confRegressed {
		w.Stats["restart-conf-regressed"]++
	}
	if n.cfg.MaxInflightBytes != 0 && n.cfg.MaxInflightBytes < n.cfg.MaxSizePerMsg {
		// Config.validate documents "max inflight bytes must be >= max message size".
		// Probe with a throw-away node: if the library refuses the pair, the operator
		// corrects it (budget = message size, or none if messages are unlimited); if it
		// accepts it, the configured budget is what C16 holds the leader to.
		if configRefused(n.cfg.MaxSizePerMsg, n.cfg.MaxInflightBytes) {
			w.Stats["config-refused-inflight-bytes-below-msg-size"]++
			n.cfg.MaxInflightBytes = n.cfg.MaxSizePerMsg
			if n.cfg.MaxSizePerMsg == ^uint64(0) {
				n.cfg.MaxInflightBytes = 0
			}
		} else {
			w.Stats["config-accepted-inflight-bytes-below-msg-size"]++
		}
	}
	c := &raft.Config{ID: n.id, ElectionTick: w.Cfg.ElectionTick, HeartbeatTick: w.Cfg.HeartbeatTick,
		Storage:       csStorage{n.ms, cs, n, w},
		MaxSizePerMsg: n.cfg.MaxSizePerMsg, MaxCommittedSizePerReady: n.cfg.MaxCommittedSize,
		MaxInflightMsgs: n.cfg.MaxInflight, MaxInflightBytes: n.cfg.MaxInflightBytes,
		MaxUncommittedEntriesSize: n.cfg.MaxUncommitted, AsyncStorageWrites: n.cfg.Async,
		PreVote: n.cfg.PreVote, CheckQuorum: n.cfg.CheckQuorum, StepDownOnRemoval: n.cfg.StepDownOnRemoval,
		DisableProposalForwarding: n.cfg.DisableFwd, Applied: applied, Logger: w.lg}
	if w.Cfg.Lease && n.cfg.CheckQuorum {
		c.ReadOnlyOption = raft.ReadOnlyLeaseBased
	}
	var rn *raft.RawNode
	w.guard(n, "newrawnode", func() {
		var err error
		rn, err = raft.NewRawNode(c)
		if err != nil {
			panic(err)
		}
	})
	if rn == nil {
		return
	}
	n.rn = rn
	n.inc++
	n.everStarted = true
	n.rd, n.rdMetas = nil, nil
	n.appQ, n.aplQ, n.selfApp, n.selfApl, n.aplOrig = nil, nil, nil, nil, nil
	n.snapReports = nil
	n.handedCS = nil
	n.heldMsgs, n.heldPtrs, n.heldBytes = nil, nil, nil
	n.outNow, n.outAfter = nil, nil
	n.appIndex = applied
	n.appState = d.StateAt[applied]
	n.mconf = mc
	n.applyNext = applied + 1
	n.snapOutstanding = false
	n.startTerm, n.expTerm, n.expVote, n.expCommit = 0, 0, 0, 0
	n.hsExposed = 0
	n.agreeUpTo = 0
	n.ticksSinceLeader = 0
	n.readRecv = map[string]int{}
	n.grants, n.pregrants, n.answers = nil, nil, nil
	n.est = 0
	n.maxAck = map[uint64]uint64{}
	n.streams = map[uint64]*stream{}
	n.hbAck = map[uint64]int{}
	n.lastHeard = map[uint64]int{}
	n.pendingSnapTo = map[uint64]bool{}
	n.epoch = 0
	n.shadow, n.shadowBase, n.shadowBaseOK = nil, 0, false
	bootstrapped := false
	if w.Cfg.Legacy && first && d.lastIndex() == 0 && len(w.Cfg.Voters) > 0 && w.isInitialMember(n.id) {
		bootstrapped = true
		var peers []raft.Peer
		for _, id := range w.Cfg.Voters {
			peers = append(peers, raft.Peer{ID: id})
		}
		w.guard(n, "bootstrap", func() { must(rn.Bootstrap(peers)) })
		w.Stats["legacy-bootstrap"]++
	}
	if w.Cfg.Legacy && !first && d.lastIndex() > 0 && w.isInitialMember(n.id) && (uint64(w.step)+n.id)%3 == 0 {
		// an application that starts every time through the StartNode path:
		// Bootstrap on a non-empty Storage must fail and change nothing
		var peers []raft.Peer
		for _, id := range w.Cfg.Voters {
			peers = append(peers, raft.Peer{ID: id})
		}
		var err error
		w.guard(n, "bootstrap", func() { err = rn.Bootstrap(peers) })
		if err == nil && n.up() {
			w.violate("C07", []string{"C14"}, "node %d: Bootstrap succeeded on a non-empty Storage (last index %d)", n.id, d.lastIndex())
		}
		w.Stats["bootstrap-on-restart-refused"]++
	}
	if hs := d.hardState(); hs != nil {
		n.startTerm, n.expTerm, n.expVote, n.expCommit = hs.GetTerm(), hs.GetTerm(), hs.GetVote(), hs.GetCommit()
		st := rn.Status()
		if st.GetTerm() != hs.GetTerm() || st.GetVote() != hs.GetVote() || st.GetCommit() != hs.GetCommit() {
			w.violate("C07", []string{"C05"}, "node %d restarted with state term=%d vote=%d commit=%d but the durable hard state is %v", n.id, st.GetTerm(), st.GetVote(), st.GetCommit(), hs)
		}
	}
	w.logf("start %d inc=%d applied=%d conf=%s disk snap=%d chain=%x", n.id, n.inc, applied, mc, d.SnapIndex, d.SnapChain)
	w.Stats["starts"]++
	if n.inc > 1 {
		w.Stats["restarts"]++
	}
	w.initDump(n)
	if bootstrapped && n.up() {
		// The legacy bootstrap state only exists in memory until the first
		// Ready is persisted; an application must not lose it (it would come
		// back with an empty configuration), so the harness persists that
		// first Ready as part of starting the node.
		if n.cfg.Async {
			w.doReadyAsync(n)
			for n.up() && len(n.appQ) > 0 {
				w.doAppendThread(n, true)
			}
		} else {
			w.doReadySync(n)
			if n.up() && n.rd != nil {
				w.doPersistEnts(n)
				if n.up() && !n.persistedHS {
					w.persistHS(n, n.rd.HardState, true)
					n.persistedHS = true
				}
			}
		}
	}
}

func (w *World) isInitialMember(id uint64) bool {
	for _, v := range w.Cfg.Voters {
		if v == id {
			return true
		}
	}
	for _, v := range w.Cfg.Learners {
		if v == id {
			return true
		}
	}
	return false
}

// ensureNode starts a fresh id once it appears in a committed configuration.
func (w *World) ensureNode(id uint64) {
	if n := w.nodes[id]; n != nil {
		if n.retired && !n.up() {
			// a retired node that reappears in a committed configuration is
			// restarted from its own disk
			n.retired = false
			w.Stats["unretired"]++
			_, hi := w.restartRange(n)
			w.start(n, hi, false)
		}
		return
	}
	n := w.newNode(id)
	n.disk.StateAt[0] = bootState
	n.disk.SnapChain = bootChain
	n.disk.SnapState = bootState
	w.Stats["nodes-added"]++
	w.start(n, 0, true)
}

// crashNode discards all volatile state. keep is the length of the prefix of
// the unsynced buffer that survives; partial means the head MsgStorageAppend's
// entries were written before the crash.
func (w *World) crashNode(n *node, keep int, partial bool) {
	if !n.up() {
		return
	}
	if n.cfg.Async && partial && len(n.appQ) > 0 && !n.appQ[0].written && raft.IsEmptySnap(n.appQ[0].msg.GetSnapshot()) && len(n.appQ[0].msg.GetEntries()) > 0 {
		// entries of the head append reached the disk (synced: real stores
		// append to a WAL that may or may not have been fsynced; the worst
		// case for safety is that they survived without the hard state)
		n.disk.write(n.appQ[0].msg.GetEntries(), nil, true)
		w.Stats["crash-partial-async"]++
	}
	if len(n.appQ) > 0 {
		w.Stats["crash-with-appq"]++
		w.Stats[fmt.Sprintf("crash-appq-depth-%d", min(len(n.appQ), 8))]++
	}
	if len(n.aplQ) > 0 {
		w.Stats["crash-with-aplq"]++
	}
	if n.rd != nil {
		switch {
		case !n.persistedEnt:
			w.Stats["crash-sync-before-entries"]++
		case !n.persistedHS:
			w.Stats["crash-sync-entries-not-hardstate"]++
		case !n.sent:
			w.Stats["crash-sync-persisted-unsent"]++
		default:
			w.Stats["crash-sync-before-advance"]++
		}
	}
	if len(n.disk.Buf) > 0 {
		w.Stats["crash-with-unsynced"]++
		if keep < len(n.disk.Buf) {
			w.Stats["unsynced-writes-lost"]++
		}
	}
	n.disk.flush(keep)
	w.logf("crash %d (appQ=%d rd=%v)", n.id, len(n.appQ), n.rd != nil)
	n.rn, n.ms = nil, nil
	n.rd, n.rdMetas = nil, nil
	n.appQ, n.aplQ, n.selfApp, n.selfApl, n.aplOrig = nil, nil, nil, nil, nil
	n.snapReports = nil
	n.outNow, n.outAfter = nil, nil
	w.Stats["crashes"]++
}

func (w *World) describe() string {
	var sb strings.Builder
	for _, id := range w.ids {
		n := w.nodes[id]
		if !n.up() {
			fmt.Fprintf(&sb, "\n   n%d down retired=%v inc=%d disk[hs=%v snap=%d last=%d durApplied=%d cstar=%d]", id, n.retired, n.inc, n.disk.hardState(), n.disk.SnapIndex, n.disk.lastIndex(), n.disk.DurApplied, n.disk.CStar)
			continue
		}
		st := n.rn.VerifState()
		fmt.Fprintf(&sb, "\n   n%d inc=%d cfg=%+v role=%v term=%d vote=%d lead=%d first=%d last=%d commit=%d applying=%d applied=%d uoff=%d xfer=%d pci=%d conf=%s disk[hs=%v snap=%d last=%d cstar=%d] prog=%v",
			id, n.inc, n.cfg, st.Role, st.Term, st.Vote, st.Lead, st.FirstIndex, st.LastIndex, st.Commit, st.Applying, st.Applied, st.UnstableOffset, st.LeadTransferee, st.PendingConfIndex, confOf(st.Conf), n.disk.hardState(), n.disk.SnapIndex, n.disk.lastIndex(), n.disk.CStar, st.Progress)
	}
	fmt.Fprintf(&sb, "\n   durable=%v legacy=%v elect=%d profile=%s", w.Cfg.Durable, w.Cfg.Legacy, w.Cfg.ElectionTick, w.Cfg.Prof.Name)
	return sb.String()
}

// configRefused reports whether the library refuses a configuration with the given
// message-size limit and inflight byte budget (NewRawNode panics with the validation
// error, which is the documented way it reports an invalid Config).
func configRefused(maxSize, maxBytes uint64) (refused bool) {
	defer func() {
		if e := recover(); e != nil {
			refused = true
		}
	}()
	_, err := raft.NewRawNode(&raft.Config{ID: 1, ElectionTick: 10, HeartbeatTick: 1, Storage: raft.NewMemoryStorage(),
		MaxSizePerMsg: maxSize, MaxInflightMsgs: 1, MaxInflightBytes: maxBytes, Logger: &raft.DefaultLogger{Logger: log.New(io.Discard, "", 0)}})
	return err != nil
}
