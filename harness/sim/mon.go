package sim

import (
	"bytes"
	"crypto/sha256"
	"fmt"
	"hash"
	"hash/fnv"
	"sort"

	"go.etcd.io/raft/v3"
	pb "go.etcd.io/raft/v3/raftpb"
	"go.etcd.io/raft/v3/tracker"
	"google.golang.org/protobuf/proto"

	"verif/model"
)

type gEnt struct {
	term  uint64
	typ   pb.EntryType
	dh    uint64 // data hash
	chain uint64
	cterm uint64 // term of the leader whose commit advance first covered it
	who   string
}

type leaderRec struct {
	node uint64
	inc  int
	step int
}

type entRec struct {
	chain uint64
	typ   pb.EntryType
	dh    uint64
	who   uint64
}

type propRec struct {
	node      uint64
	step      int
	dropped   bool
	accepted  int // nil-error local calls (at a leader: appended; at a follower: forwarded)
	atLeader  bool
	delivered int // deliveries of a MsgProp carrying it
	batch     int
	pos       int
}

type readRec struct {
	node      uint64
	inc       int
	issueStep int
	maxCommit uint64
	served    bool
	key       int
}

type kvOp struct {
	client int
	write  bool
	key    int
	val    string // for writes the unique payload; for reads the observed value
	call   int
	ret    int
	open   bool
}

type monState struct {
	G           map[uint64]gEnt
	gLen        uint64
	maxByCterm  map[uint64]uint64
	delivered   map[uint64]gEnt
	stateAt     map[uint64]uint64
	entryOf     map[[2]uint64]entRec
	leaderOf    map[uint64]leaderRec
	voteOf      map[[2]uint64]uint64
	durVote     map[[2]uint64]uint64
	campaigned  map[[2]uint64]int
	confG       map[uint64]string
	proposals   map[string]*propRec
	reads       map[string]*readRec
	ccCtx       map[string]bool
	nBatch      int
	lastPanic   string
	advancing   *raft.Ready
	lastRetireStep int
	taintF1b    string
	taintF6     string
	digest      hash.Hash
	kv          []kvOp
	putByPayload map[string]int
	pendingGets map[string]int
	twoVoterExc bool
	emptyByTerm map[uint64]int
	neutralByTerm map[uint64]int
	known       map[string]bool
	deliveredKV map[uint64]string
	putApplied  map[uint64]int
	curPayloads [][]byte
	curTypes    []pb.EntryType
	curCC       []byte
	curCCType   pb.EntryType
	curRead     []byte
	curReportTo uint64
	curInData   [][]byte
	curInTypes  []pb.EntryType
	candByTerm  map[uint64]map[uint64]bool
	commitClock map[uint64]int
	writtenVote map[[2]uint64]uint64
}

func newMonState() *monState {
	return &monState{G: map[uint64]gEnt{}, maxByCterm: map[uint64]uint64{}, delivered: map[uint64]gEnt{}, stateAt: map[uint64]uint64{},
		entryOf: map[[2]uint64]entRec{}, leaderOf: map[uint64]leaderRec{}, voteOf: map[[2]uint64]uint64{}, durVote: map[[2]uint64]uint64{},
		campaigned: map[[2]uint64]int{}, confG: map[uint64]string{}, proposals: map[string]*propRec{}, reads: map[string]*readRec{},
		ccCtx: map[string]bool{}, digest: sha256.New(), putByPayload: map[string]int{}, pendingGets: map[string]int{},
		emptyByTerm: map[uint64]int{}, neutralByTerm: map[uint64]int{}, deliveredKV: map[uint64]string{}, putApplied: map[uint64]int{},
		candByTerm: map[uint64]map[uint64]bool{}, commitClock: map[uint64]int{}, writtenVote: map[[2]uint64]uint64{}}
}

func dhash(b []byte) uint64 {
	h := fnv.New64a()
	h.Write(b)
	return h.Sum64()
}

func (m *monState) seedBoot(index, term uint64) {
	m.gLen = index
	m.G[index] = gEnt{term: term, chain: bootChain, cterm: 0, who: "boot"}
	m.stateAt[index] = bootState
}

// KnownFindings is the set of open known-finding ids (from known_findings.json).
var KnownFindings = map[string]bool{}

func safetyProp(p string) bool {
	switch p {
	case "C01", "C02", "C03", "C04", "C05", "C06", "C09":
		return true
	}
	return false
}

func (w *World) classifyKnown(v *Violation) string {
	// Once the root event of F1b or F6 has happened in a world (a leader was
	// elected on a stale grant / with a configuration older than one an earlier
	// incarnation had applied) the premises of every property are gone in that
	// world: whatever follows is attributed to that finding. Worlds without
	// the root event are judged normally.
	if w.mon.taintF1b != "" && KnownFindings["F1b"] {
		return "F1b: " + w.mon.taintF1b
	}
	if w.mon.taintF6 != "" && KnownFindings["F6"] {
		return "F6: " + w.mon.taintF6
	}
	return ""
}

// ---------------------------------------------------------------- entries

// checkEntry: global log matching map (C03). Called for every new or changed
// entry of every log whose chain hash is known.
func (w *World) checkEntry(n *node, e *sEnt, kind string) {
	k := [2]uint64{e.Index, e.Term}
	dh := dhash(e.Data)
	if old, ok := w.mon.entryOf[k]; ok {
		if old.chain != e.Chain {
			if old.typ != e.Type || old.dh != dh {
				w.violate("C03", []string{"C01", "C02"}, "entry (index %d, term %d) has two contents: node %d holds type=%v %q, node %d recorded type=%v hash=%x (%s)", e.Index, e.Term, n.id, e.Type, trunc(e.Data), old.who, old.typ, old.dh, kind)
			} else {
				w.violate("C03", []string{"C01"}, "logs agree at (index %d, term %d) but differ below it: node %d vs node %d (%s)", e.Index, e.Term, n.id, old.who, kind)
			}
		}
		return
	}
	w.mon.entryOf[k] = entRec{chain: e.Chain, typ: e.Type, dh: dh, who: n.id}
	w.Stats["entries-registered"]++
}

// checkNewEntry: proposal integrity (C20) for an entry that is new in this log.
func (w *World) checkNewEntry(n *node, e *sEnt, post *raft.VerifState, kind string) {
	switch {
	case e.Type == pb.EntryNormal && len(e.Data) > 0:
		p := w.mon.proposals[string(e.Data)]
		if p == nil {
			w.violate("C20", nil, "node %d holds entry %d (term %d) with payload %q that was never proposed", n.id, e.Index, e.Term, trunc(e.Data))
			return
		}
		if p.dropped && p.accepted == 0 {
			w.violate("C20", nil, "node %d holds entry %d with payload %q whose Propose returned ErrProposalDropped", n.id, e.Index, trunc(e.Data))
		}
	case isConfType(e.Type) && len(e.Data) > 0:
		cc, _, ok := decodeCC(&pb.Entry{Type: e.Type.Enum(), Data: e.Data})
		if !ok {
			w.violate("C20", nil, "node %d holds configuration entry %d that does not decode", n.id, e.Index)
			return
		}
		boot := w.Cfg.Legacy && e.Term == 1 && e.Index <= uint64(len(w.Cfg.Voters))
		if !boot && !w.mon.ccCtx[string(cc.GetContext())] {
			w.violate("C20", nil, "node %d holds configuration entry %d with context %q that was never proposed", n.id, e.Index, trunc(cc.GetContext()))
		}
	}
}

// ---------------------------------------------------------------- start

func (w *World) onStart(n *node, st *raft.VerifState) {
	if w.Cfg.Legacy && n.inc == 1 && st.LastIndex > 0 && st.Commit == st.LastIndex && w.mon.gLen < st.Commit {
		// RawNode.Bootstrap declares its entries committed by fiat
		for i, e := range n.shadow {
			_ = i
			w.mon.G[e.Index] = gEnt{term: e.Term, typ: e.Type, dh: dhash(e.Data), chain: e.Chain, cterm: 0, who: "bootstrap"}
		}
		w.mon.gLen = st.Commit
		w.mon.maxByCterm[0] = st.Commit
	}
	w.checkCommitPrefix(n, st, "start")
	w.extendAgree(n, st)
}

// ---------------------------------------------------------------- Ready

func (w *World) onReady(n *node, rd *raft.Ready, hs *pb.HardState, ents []*pb.Entry, snap *pb.Snapshot, committed []*pb.Entry) {
	m := w.mon
	// C19 digest
	w.digestReady(n, rd)
	// C07 exposed hard state
	if hs != nil && !raft.IsEmptyHardState(hs) {
		if hs.GetTerm() < n.expTerm || hs.GetCommit() < n.expCommit {
			w.violate("C07", nil, "node %d exposed hard state %v after term=%d commit=%d", n.id, hs, n.expTerm, n.expCommit)
		}
		if hs.GetTerm() == n.expTerm && n.expVote != 0 && hs.GetVote() != n.expVote {
			w.violate("C07", []string{"C02"}, "node %d vote changed within term %d: %d -> %d", n.id, hs.GetTerm(), n.expVote, hs.GetVote())
		}
		if hs.GetTerm() != n.st.Term || hs.GetVote() != n.st.Vote || hs.GetCommit() != n.st.Commit {
			w.violate("C07", nil, "node %d exposed hard state %v but its state is term=%d vote=%d commit=%d", n.id, hs, n.st.Term, n.st.Vote, n.st.Commit)
		}
		n.expTerm, n.expVote, n.expCommit = hs.GetTerm(), hs.GetVote(), hs.GetCommit()
		n.hsExposed++
		w.Stats["hardstates-exposed"]++
		if n.hsExposed == 3 {
			w.sample("C07", func() any {
				return map[string]any{"node": n.id, "incarnation": n.inc, "third_exposed_hard_state": map[string]uint64{"term": hs.GetTerm(), "vote": hs.GetVote(), "commit": hs.GetCommit()}, "durable_at_start_term": n.startTerm}
			})
		}
	}
	// MustSync must be set when entries, term or vote are to be written (C05 mechanism)
	if !n.cfg.Async {
		need := len(rd.Entries) > 0
		if rd.HardState != nil && (rd.HardState.GetTerm() != n.disk.lastWrittenTerm(n) || rd.HardState.GetVote() != n.disk.lastWrittenVote(n)) {
			need = true
		}
		if need && !rd.MustSync {
			w.violate("C05", []string{"C07", "C02"}, "node %d: Ready carries %d entries and hard state %v (previously written term=%d vote=%d) but MustSync is false: the application is told that it need not fsync a new term, vote or entries", n.id, len(rd.Entries), rd.HardState, n.disk.lastWrittenTerm(n), n.disk.lastWrittenVote(n))
		}
	}
	// C11 read states
	for _, rs := range rd.ReadStates {
		w.onReadState(n, rs)
	}
	// C08 / C01: entries handed to the application (judged at hand-out time)
	if len(committed) > 0 {
		if n.snapOutstanding || !raft.IsEmptySnap(snap) {
			w.violate("C08", []string{"C09"}, "node %d was handed committed entries [%d..%d] while a snapshot install is outstanding", n.id, committed[0].GetIndex(), committed[len(committed)-1].GetIndex())
		}
		if last := committed[len(committed)-1].GetIndex(); last > n.st.Commit {
			w.violate("C08", []string{"C01"}, "node %d was handed index %d beyond its commit index %d", n.id, last, n.st.Commit)
		}
		var sz uint64
		for _, e := range committed {
			sz += uint64(proto.Size(e))
			if e.GetIndex() != n.applyNext {
				w.violate("C08", []string{"C01"}, "node %d apply stream: handed index %d, expected %d (incarnation %d)", n.id, e.GetIndex(), n.applyNext, n.inc)
			}
			n.applyNext = e.GetIndex() + 1
			w.onHandedOut(n, e)
		}
		if n.cfg.Async {
			w.checkDurableBatch(n, committed)
		}
		if lim := n.cfg.MaxCommittedSize; lim != 0 && lim != noLimit && sz > lim {
			if len(committed) == 1 {
				w.Stats["apply-batch-single-over-limit"]++
			} else {
				w.Stats["apply-batch-over-limit"]++
			}
		}
		w.Stats["apply-batches"]++
		if len(committed) > 1 || n.inc > 1 {
			w.sample("C08", func() any {
				return map[string]any{"node": n.id, "incarnation": n.inc, "batch": []uint64{committed[0].GetIndex(), committed[len(committed)-1].GetIndex()}, "bytes": sz, "max_committed_size": n.cfg.MaxCommittedSize, "commit": n.st.Commit, "async": n.cfg.Async}
			})
		}
	}
	if !raft.IsEmptySnap(snap) {
		n.snapOutstanding = true
		n.applyNext = snap.GetMetadata().GetIndex() + 1
		w.Stats["snapshots-handed-out"]++
	}
	// entries to persist must continue the log
	if len(ents) > 0 {
		for i, e := range ents {
			if i > 0 && e.GetIndex() != ents[i-1].GetIndex()+1 {
				w.violate("C18", []string{"C03"}, "node %d Ready.Entries not contiguous at %d", n.id, e.GetIndex())
			}
			if sc, ok := n.shadowAt(e.GetIndex()); ok && (sc.Term != e.GetTerm() || !bytes.Equal(sc.Data, e.GetData())) {
				w.violate("C18", []string{"C03"}, "node %d was handed entry %d (term %d) to persist that differs from its log (term %d)", n.id, e.GetIndex(), e.GetTerm(), sc.Term)
			}
		}
		w.Stats["entries-handed-out"] += len(ents)
	}
	_ = m
}

func (n *node) shadowAt(i uint64) (*sEnt, bool) {
	if i <= n.shadowBase || i > n.shadowBase+uint64(len(n.shadow)) {
		return nil, false
	}
	return &n.shadow[i-n.shadowBase-1], true
}

func (d *Disk) lastWrittenTerm(n *node) uint64 {
	if hs, _, _ := n.ms.InitialState(); hs != nil {
		return hs.GetTerm()
	}
	return 0
}
func (d *Disk) lastWrittenVote(n *node) uint64 {
	if hs, _, _ := n.ms.InitialState(); hs != nil {
		return hs.GetVote()
	}
	return 0
}

func (w *World) digestReady(n *node, rd *raft.Ready) {
	mo := proto.MarshalOptions{Deterministic: true}
	d := w.mon.digest
	fmt.Fprintf(d, "R%d#%d:%v:", n.id, n.inc, rd.MustSync)
	if rd.SoftState != nil {
		fmt.Fprintf(d, "ss%d/%d:", rd.SoftState.Lead, rd.SoftState.RaftState)
	}
	if rd.HardState != nil {
		b, _ := mo.Marshal(rd.HardState)
		d.Write(b)
	}
	for _, e := range rd.Entries {
		b, _ := mo.Marshal(e)
		d.Write(b)
	}
	d.Write([]byte{'|'})
	for _, e := range rd.CommittedEntries {
		b, _ := mo.Marshal(e)
		d.Write(b)
	}
	d.Write([]byte{'|'})
	for _, m := range rd.Messages {
		b, _ := mo.Marshal(m)
		d.Write(b)
		d.Write([]byte{';'})
	}
	if rd.Snapshot != nil {
		b, _ := mo.Marshal(rd.Snapshot)
		d.Write(b)
	}
	for _, rs := range rd.ReadStates {
		fmt.Fprintf(d, "rs%d:%s|", rs.Index, rs.RequestCtx)
	}
}

// Digest returns the running digest over every Ready of the world.
func (w *World) Digest() string { return fmt.Sprintf("%x", w.mon.digest.Sum(nil)) }

// ---------------------------------------------------------------- apply

func (w *World) onApplyBatch(n *node, ents []*pb.Entry) {}

// checkDurableBatch: with asynchronous storage writes only locally durable
// entries are handed to the application.
func (w *World) checkDurableBatch(n *node, ents []*pb.Entry) {
	{
		last := ents[len(ents)-1].GetIndex()
		d := n.disk
		for _, e := range ents {
			de := d.entAt(e.GetIndex())
			if de == nil {
				if e.GetIndex() <= d.SnapIndex {
					continue
				}
				w.violate("C08", []string{"C05"}, "async node %d was handed index %d which is not durable locally (durable log ends at %d, batch ends at %d)", n.id, e.GetIndex(), d.lastIndex(), last)
				return
			}
			if de.Term != e.GetTerm() || !bytes.Equal(de.Data, e.GetData()) {
				w.violate("C08", []string{"C05", "C01"}, "async node %d was handed entry %d (term %d) but its durable log holds term %d there", n.id, e.GetIndex(), e.GetTerm(), de.Term)
				return
			}
		}
	}
}

func (w *World) onApplyEntry(n *node, e *pb.Entry) {
	m := w.mon
	idx := e.GetIndex()
	// KV history for the porcupine check (C11): a put completes when the
	// proposing node applies it
	if e.GetType() == pb.EntryNormal && len(e.GetData()) > 0 {
		if _, ok := m.deliveredKV[idx]; !ok {
			m.deliveredKV[idx] = string(e.GetData())
		}
		// the write at idx is acknowledged once some node has applied it
		if _, ok := m.putApplied[idx]; !ok {
			m.putApplied[idx] = w.clock
		}
	}
	w.Stats["entries-applied"]++
}

// onHandedOut: state-machine safety (C01) for one entry handed to the
// application of node n.
func (w *World) onHandedOut(n *node, e *pb.Entry) {
	m := w.mon
	idx := e.GetIndex()
	ge := gEnt{term: e.GetTerm(), typ: e.GetType(), dh: dhash(e.GetData()), who: fmt.Sprintf("%d#%d", n.id, n.inc)}
	if old, ok := m.delivered[idx]; ok {
		if old.term != ge.term || old.typ != ge.typ || old.dh != ge.dh {
			w.violate("C01", nil, "index %d: node %s was handed (term %d, type %v, %q) but %s was handed (term %d, type %v, hash %x)", idx, ge.who, ge.term, ge.typ, trunc(e.GetData()), old.who, old.term, old.typ, old.dh)
		}
		w.Stats["deliveries-compared"]++
		if old.who != ge.who {
			w.Stats["deliveries-cross-witness"]++
			w.sample("C01", func() any {
				return map[string]any{"index": idx, "term": ge.term, "type": ge.typ.String(), "handed_to": []string{old.who, ge.who}, "identical": old.term == ge.term && old.dh == ge.dh}
			})
		}
	} else {
		m.delivered[idx] = ge
	}
	if g, ok := m.G[idx]; ok && (g.term != ge.term || g.typ != ge.typ || g.dh != ge.dh) {
		w.violate("C01", []string{"C06"}, "index %d: node %s was handed (term %d, %q) but the entry a leader committed there is (term %d, hash %x)", idx, ge.who, ge.term, trunc(e.GetData()), g.term, g.dh)
	}
	if idx > m.gLen {
		w.violate("C01", []string{"C06", "C08"}, "node %s was handed index %d which no leader has committed (committed up to %d)", ge.who, idx, m.gLen)
	}
}

func (m *monState) noteState(w *World, n *node, idx, state uint64) {
	if old, ok := m.stateAt[idx]; ok {
		if old != state {
			w.violate("C01", nil, "node %d reached application state %x after index %d, another node reached %x", n.id, state, idx, old)
		}
	} else {
		m.stateAt[idx] = state
	}
	w.completeGets(n)
}

func (w *World) onSnapshotInstall(n *node, snap *pb.Snapshot, state, chain uint64) {
	m := w.mon
	idx, term := snap.GetMetadata().GetIndex(), snap.GetMetadata().GetTerm()
	if g, ok := m.G[idx]; ok {
		if g.term != term || g.chain != chain {
			w.violate("C01", []string{"C09"}, "node %d installs snapshot (%d,%d) whose prefix differs from the committed log (term %d)", n.id, idx, term, g.term)
		}
	} else if idx > m.gLen {
		w.violate("C09", []string{"C01"}, "node %d installs snapshot at %d beyond anything committed (%d)", n.id, idx, m.gLen)
	}
	if old, ok := m.stateAt[idx]; ok && old != state {
		w.violate("C01", []string{"C09"}, "node %d installs snapshot at %d with application state %x, nodes that applied the log reached %x", n.id, idx, state, old)
	}
	if idx < n.appIndex {
		w.violate("C09", []string{"C08"}, "node %d installs snapshot at %d below its applied index %d", n.id, idx, n.appIndex)
	}
	w.Stats["snapshots-checked"]++
}

func (w *World) onConfApplied(n *node, idx uint64, cs *pb.ConfState, next model.Conf, boot bool) {
	m := w.mon
	got := confOf(cs)
	if !boot && !got.Equal(next) {
		w.violate("C10", nil, "node %d: ApplyConfChange at %d returned %s, folding the committed changes gives %s", n.id, idx, got, next)
	}
	d := got.String()
	if w.Cfg.Legacy && idx <= uint64(len(w.Cfg.Voters)) {
		// RawNode.Bootstrap pre-applies the whole initial membership; the
		// per-entry configurations of the bootstrap entries legitimately differ
		// between bootstrapped nodes and nodes that replay the log
		if idx == uint64(len(w.Cfg.Voters)) {
			m.confG[idx] = next.String()
		}
		return
	}
	if old, ok := m.confG[idx]; ok && old != d {
		w.violate("C10", nil, "configuration after index %d differs between nodes: %s vs %s (node %d)", idx, old, d, n.id)
	}
	m.confG[idx] = d
	w.Stats["conf-"+confShape(got)]++
	w.sample("C10", func() any {
		return map[string]any{"node": n.id, "index": idx, "ApplyConfChange_returned": got.String(), "fold_of_committed_changes": next.String()}
	})
	// documented liveness exception: a voter leaves a two-voter set
	if !boot {
		_, prev := n.disk.mconfLookup(idx - 1)
		for _, set := range [][]uint64{prev.Voters(), prev.Outgoing()} {
			// (a voter leaving a set of one or two voters: the remaining members
			// may need the departed voter for their stale quorum, and it may
			// refuse - README "use three or more nodes")
			if len(set) == 2 {
				for _, id := range set {
					if !got.V[id] {
						m.twoVoterExc = true
					}
				}
			}
		}
	}
}

func confShape(c model.Conf) string {
	s := fmt.Sprintf("v%d", len(c.V))
	if c.Joint() {
		s += fmt.Sprintf("-joint%d", len(c.O))
		if c.AutoLeave {
			s += "-auto"
		}
	}
	if len(c.L) > 0 {
		s += fmt.Sprintf("-l%d", len(c.L))
	}
	if len(c.LN) > 0 {
		s += "-ln"
	}
	return s
}

// ---------------------------------------------------------------- reads

func (m *monState) noteReadIssued(w *World, n *node, ctx []byte) {
	var mx uint64
	for _, id := range w.ids {
		if o := w.nodes[id]; o.up() {
			mx = max(mx, o.st.Commit)
		}
	}
	key := int(dhash(ctx) % 3)
	if old, ok := m.reads[string(ctx)]; ok && old.node == n.id {
		// duplicate context: the earliest issue is the (weaker, sound) reference
		w.Stats["reads-duplicate-context"]++
		return
	}
	m.reads[string(ctx)] = &readRec{node: n.id, inc: n.inc, issueStep: w.step, maxCommit: mx, key: key}
}

func (w *World) onReadState(n *node, rs raft.ReadState) {
	m := w.mon
	ctx := string(rs.RequestCtx)
	r, ok := m.reads[ctx]
	if !ok {
		w.violate("C11", nil, "node %d reported a read state with context %q that was never issued", n.id, trunc(rs.RequestCtx))
		return
	}
	if r.node != n.id {
		w.violate("C11", nil, "read state %q reported at node %d but the request was issued at node %d", ctx, n.id, r.node)
	}
	if rs.Index < r.maxCommit && !w.Cfg.Lease {
		w.violate("C11", nil, "stale read: context %q got index %d < commit index %d that some node had when it was issued (node %d)", ctx, rs.Index, r.maxCommit, n.id)
	}
	w.Stats["reads-served"]++
	w.sample("C11", func() any {
		return map[string]any{"ctx": ctx, "issued_at_node": r.node, "read_index": rs.Index, "max_commit_when_issued": r.maxCommit, "node_role": n.st.Role.String()}
	})
	if !r.served && r.inc == n.inc {
		r.served = true
		// Get: completes when this node's applied index reaches the read index
		m.kv = append(m.kv, kvOp{client: int(n.id)*100 + n.inc, write: false, key: r.key, call: r.issueStep, ret: -1, open: true, val: fmt.Sprint(rs.Index)})
		m.pendingGets[ctx] = len(m.kv) - 1
		w.completeGets(n)
	}
}

// completeGets finishes reads at node n whose read index has been applied.
func (w *World) completeGets(n *node) {
	m := w.mon
	if len(m.pendingGets) == 0 {
		return
	}
	for ctx, i := range m.pendingGets {
		r := m.reads[ctx]
		if r.node != n.id {
			continue
		}
		if r.inc != n.inc {
			delete(m.pendingGets, ctx)
			m.kv[i].open = false
			m.kv[i].ret = -2 // discarded
			continue
		}
		var ri uint64
		fmt.Sscan(m.kv[i].val, &ri)
		if n.appIndex >= ri {
			m.kv[i].ret = w.clock
			m.kv[i].open = false
			m.kv[i].val = fmt.Sprint(n.appIndex) // resolved to a value from the delivered log at the end
			delete(m.pendingGets, ctx)
		}
	}
}

// ---------------------------------------------------------------- proposals

func payloadKey(p []byte) int {
	// payload format: p<seq>k<key>...
	for i := 0; i+1 < len(p); i++ {
		if p[i] == 'k' && p[i+1] >= '0' && p[i+1] <= '9' {
			return int(p[i+1] - '0')
		}
	}
	return 0
}

func (m *monState) noteProposal(w *World, n *node, payloads [][]byte, batch bool) {
	b := 0
	if batch {
		m.nBatch++
		b = m.nBatch
	}
	for i, p := range payloads {
		m.proposals[string(p)] = &propRec{node: n.id, step: w.clock, batch: b, pos: i, atLeader: n.st.Role == raft.StateLeader}
	}
	w.Stats["proposals"] += len(payloads)
}

func (m *monState) noteProposalResult(w *World, n *node, payloads [][]byte, err error) {
	for _, p := range payloads {
		r := m.proposals[string(p)]
		if err != nil {
			r.dropped = true
		} else {
			r.accepted++
		}
	}
	if err != nil {
		w.Stats["proposals-dropped"] += len(payloads)
	} else {
		w.Stats["proposals-accepted"] += len(payloads)
	}
}

func (m *monState) noteCCProposal(w *World, n *node, cc pb.ConfChangeI) {
	m.ccCtx[string(cc.AsV2().GetContext())] = true
}

func (m *monState) noteCCResult(w *World, n *node, cc pb.ConfChangeI, err error) {}

// ---------------------------------------------------------------- deliveries

// preDeliver runs before a network message is stepped.
func (w *World) preDeliver(t *node, msg *pb.Message, nm *netMsg) {
	m := w.mon
	switch msg.GetType() {
	case pb.MsgProp:
		m.curInData, m.curInTypes = nil, nil
		for _, e := range msg.GetEntries() {
			if p := m.proposals[string(e.GetData())]; p != nil {
				p.delivered++
			}
			m.curInData = append(m.curInData, append([]byte(nil), e.GetData()...))
			m.curInTypes = append(m.curInTypes, e.GetType())
		}
		w.Stats["msgprop-delivered"]++
	case pb.MsgReadIndex:
		for _, e := range msg.GetEntries() {
			if _, ok := t.readRecv[string(e.GetData())]; !ok {
				t.readRecv[string(e.GetData())] = w.clock
			}
		}
	case pb.MsgHeartbeatResp:
		// causality: which heartbeat caused this response, and when was it created
		if cause, ok := w.sentLog[nm.meta.cause]; ok && cause.typ == pb.MsgHeartbeat && t.st.Role == raft.StateLeader && cause.inc == t.inc {
			if cause.createStep >= t.leaderSince && cause.createStep > t.hbAck[msg.GetFrom()] {
				t.hbAck[msg.GetFrom()] = cause.createStep
			}
		}
	}
	if msg.GetTerm() != 0 && msg.GetTerm() < t.st.Term {
		w.Stats["stale-term-delivered-"+msg.GetType().String()]++
	} else if msg.GetTerm() > t.st.Term {
		w.Stats["future-term-delivered-"+msg.GetType().String()]++
	}
}

func (w *World) onSelfDeliver(n *node, msg *pb.Message, meta *msgMeta) {
	d := n.disk
	switch msg.GetType() {
	case pb.MsgAppResp:
		// the leader's own acknowledgement: entries up to Index must be durable
		if !msg.GetReject() && msg.GetTerm() >= n.st.Term {
			// (a self-acknowledgement of an earlier term is ignored by raft)
			if meta.ackChainOK {
				c := meta.ackChain
				if dc, ok2 := d.chainAt(msg.GetIndex()); !(ok2 && dc == c) && d.SnapIndex < msg.GetIndex() && !(d.HasHS && d.Term > msg.GetTerm()) {
					w.violate("C05", []string{"C06"}, "node %d: own append acknowledgement for index %d (term %d) delivered while its disk does not hold that prefix (durable last %d)", n.id, msg.GetIndex(), msg.GetTerm(), d.lastIndex())
				}
			}
			w.Stats["self-acks-delivered"]++
		}
	case pb.MsgVoteResp:
		if !msg.GetReject() {
			if !(d.HasHS && (d.Term > msg.GetTerm() || (d.Term == msg.GetTerm() && d.Vote == n.id))) {
				w.violate("C05", []string{"C02"}, "node %d: own vote for term %d delivered while its durable hard state is %v", n.id, msg.GetTerm(), d.hardState())
			}
			k := [2]uint64{n.id, msg.GetTerm()}
			if old, ok := w.mon.voteOf[k]; ok && old != n.id {
				w.violate("C02", nil, "node %d votes for itself in term %d after granting its vote to %d", n.id, msg.GetTerm(), old)
			}
			w.mon.voteOf[k] = n.id
			w.Stats["self-votes-delivered"]++
		}
	case pb.MsgStorageAppendResp:
		if msg.GetSnapshot() != nil {
			w.Stats["append-acks-with-snapshot"]++
			if msg.GetTerm() < n.st.Term {
				w.Stats["stale-append-acks-with-snapshot"]++
			}
		}
		if msg.GetIndex() != 0 {
			// the acknowledged entries must be on disk (the harness wrote them);
			// count stale/ABA acknowledgements for coverage
			if msg.GetTerm() < n.st.Term {
				w.Stats["stale-append-acks"]++
				if msg.GetSnapshot() != nil {
					w.Stats["stale-append-acks-with-snapshot-and-entries"]++
				}
			}
			if t, ok := n.shadowAt(msg.GetIndex()); ok && t.Term != msg.GetLogTerm() {
				w.Stats["aba-append-acks"]++
			}
		}
	}
}

// ---------------------------------------------------------------- wire

// wireMon runs at the instant a message is handed to the network by the
// contract-following application.
func (w *World) wireMon(n *node, msg *pb.Message, meta *msgMeta) {
	m := w.mon
	d := n.disk
	var dterm, dvote uint64
	if d.HasHS {
		dterm, dvote = d.Term, d.Vote
	}
	switch msg.GetType() {
	case pb.MsgVoteResp:
		if !msg.GetReject() {
			w.Stats["vote-grants-on-wire"]++
			if !(dterm > msg.GetTerm() || (dterm == msg.GetTerm() && dvote == msg.GetTo())) {
				w.violate("C05", []string{"C02"}, "vote grant %d->%d for term %d handed to the network while the durable term/vote is %d/%d", n.id, msg.GetTo(), msg.GetTerm(), dterm, dvote)
			}
			k := [2]uint64{n.id, msg.GetTerm()}
			if old, ok := m.voteOf[k]; ok && old != msg.GetTo() {
				w.violate("C02", []string{"C07"}, "node %d granted its vote in term %d to %d and to %d", n.id, msg.GetTerm(), old, msg.GetTo())
			}
			m.voteOf[k] = msg.GetTo()
		}
	case pb.MsgAppResp:
		if !msg.GetReject() && meta.inc == n.inc {
			w.Stats["acks-on-wire"]++
			if n.cfg.Async {
				w.sample("C05", func() any {
					return map[string]any{"message": "MsgAppResp", "from": n.id, "to": msg.GetTo(), "index": msg.GetIndex(), "term": msg.GetTerm(), "sender_durable_last": d.lastIndex(), "sender_durable_term": dterm, "queued_appends": len(n.appQ), "interface": "async"}
				})
			}
			ok := dterm > msg.GetTerm() || d.SnapIndex >= msg.GetIndex()
			if !ok {
				if dc, has := d.chainAt(msg.GetIndex()); has {
					if !meta.ackChainOK || dc == meta.ackChain {
						ok = true
					}
				}
			}
			if !ok {
				w.violate("C05", []string{"C06"}, "acknowledgement %d->%d for index %d (term %d) handed to the network while the sender's disk ends at %d (durable term %d) and does not hold that prefix", n.id, msg.GetTo(), msg.GetIndex(), msg.GetTerm(), d.lastIndex(), dterm)
			}
		}
	case pb.MsgProp:
		for _, e := range msg.GetEntries() {
			if p := m.proposals[string(e.GetData())]; p != nil && p.dropped && p.accepted == 0 && e.GetType() == pb.EntryNormal {
				w.violate("C20", nil, "node %d forwards proposal %q to %d although its Propose call returned ErrProposalDropped", n.id, trunc(e.GetData()), msg.GetTo())
			}
		}
		w.Stats["msgprop-on-wire"]++
	case pb.MsgVote:
		k := [2]uint64{n.id, msg.GetTerm()}
		if inc, ok := m.campaigned[k]; ok && inc != n.inc {
			w.Stats["recampaign-same-term"]++
		} else if !ok {
			m.campaigned[k] = n.inc
		}
	case pb.MsgApp:
		var sz, pay uint64
		for _, e := range msg.GetEntries() {
			sz += uint64(proto.Size(e))
			pay += uint64(len(e.GetData()))
			k := [2]uint64{e.GetIndex(), e.GetTerm()}
			if old, ok := m.entryOf[k]; ok && (old.typ != e.GetType() || old.dh != dhash(e.GetData())) {
				w.violate("C03", []string{"C01"}, "MsgApp %d->%d carries entry (%d,%d) whose content differs from the one in node %d's log", n.id, msg.GetTo(), e.GetIndex(), e.GetTerm(), old.who)
			}
		}
		if len(msg.GetEntries()) > 1 && sz > n.cfg.MaxSizePerMsg {
			w.violate("C16", nil, "MsgApp %d->%d carries %d entries of total size %d > MaxSizePerMsg %d", n.id, msg.GetTo(), len(msg.GetEntries()), sz, n.cfg.MaxSizePerMsg)
		}
		if len(msg.GetEntries()) > 0 {
			w.Stats["msgapp-with-entries"]++
			if len(msg.GetEntries()) == 1 && sz > n.cfg.MaxSizePerMsg {
				w.Stats["msgapp-single-over-limit"]++
			}
		}
		if msg.GetCommit() > m.gLen {
			w.violate("C06", nil, "MsgApp %d->%d carries commit index %d beyond anything a leader committed (%d)", n.id, msg.GetTo(), msg.GetCommit(), m.gLen)
		}
	case pb.MsgHeartbeat:
		if msg.GetCommit() > m.gLen {
			w.violate("C06", nil, "MsgHeartbeat %d->%d carries commit index %d beyond anything a leader committed (%d)", n.id, msg.GetTo(), msg.GetCommit(), m.gLen)
		}
	case pb.MsgSnap:
		md := msg.GetSnapshot().GetMetadata()
		idx, term := md.GetIndex(), md.GetTerm()
		state, chain, ok := parseSnapData(msg.GetSnapshot().GetData())
		if !ok {
			w.violate("C09", nil, "MsgSnap %d->%d at %d carries data no application produced", n.id, msg.GetTo(), idx)
			break
		}
		if idx > m.gLen {
			w.violate("C09", []string{"C06"}, "MsgSnap %d->%d at index %d is beyond the committed log (%d)", n.id, msg.GetTo(), idx, m.gLen)
		}
		if g, ok := m.G[idx]; ok && (g.term != term || g.chain != chain) {
			w.violate("C09", []string{"C01"}, "MsgSnap %d->%d (%d,%d) does not describe a prefix of the committed log (term there %d)", n.id, msg.GetTo(), idx, term, g.term)
		}
		if s, ok := m.stateAt[idx]; ok && s != state {
			w.violate("C09", []string{"C01"}, "MsgSnap %d->%d at %d carries application state %x, the log prefix gives %x", n.id, msg.GetTo(), idx, state, s)
		}
		if want, ok := w.confInForce(idx); ok && want != confOf(md.GetConfState()).String() {
			w.violate("C09", []string{"C10"}, "MsgSnap %d->%d at %d carries configuration %s, the committed configuration there is %s", n.id, msg.GetTo(), idx, confOf(md.GetConfState()), want)
		}
	}
	// C07: never act in a term below the one that was durable at start
	if msg.GetTerm() != 0 && meta.inc == n.inc && msg.GetType() != pb.MsgPreVoteResp && msg.GetTerm() < n.startTerm {
		w.violate("C07", []string{"C05"}, "node %d (incarnation %d) sent %s with term %d below the term %d that was durable when it started", n.id, n.inc, msg.GetType(), msg.GetTerm(), n.startTerm)
	}
}

// confInForce returns the committed configuration after index i.
func (w *World) confInForce(i uint64) (string, bool) {
	var best uint64
	found := false
	for k := range w.mon.confG {
		if k <= i && (!found || k > best) {
			best, found = k, true
		}
	}
	if !found {
		return "", false
	}
	return w.mon.confG[best], true
}

// ---------------------------------------------------------------- pre/post

func voters(cs *pb.ConfState) [][]uint64 {
	return [][]uint64{cs.GetVoters(), cs.GetVotersOutgoing()}
}

func (w *World) diskHolds(id, index, chain uint64) bool {
	n := w.nodes[id]
	if n == nil {
		return false
	}
	d := n.disk
	if d.SnapIndex > index {
		return true
	}
	c, ok := d.chainAt(index)
	return ok && c == chain
}

func (w *World) checkCommitPrefix(n *node, st *raft.VerifState, kind string) {
	m := w.mon
	if st.Commit > st.LastIndex {
		w.violate("C06", nil, "node %d: commit %d > last index %d (%s)", n.id, st.Commit, st.LastIndex, kind)
		return
	}
	if st.Role != raft.StateLeader && st.Commit > m.gLen {
		w.violate("C06", nil, "node %d: commit index %d exceeds what any leader has committed (%d) (%s)", n.id, st.Commit, m.gLen, kind)
		return
	}
	if g, ok := m.G[st.Commit]; ok {
		if c, ok2 := n.shadowChain(st.Commit); ok2 && c != g.chain {
			if w.keepLog {
				for i := n.shadowBase; i <= st.Commit; i++ {
					c, _ := n.shadowChain(i)
					e, _ := n.shadowAt(i)
					w.logf("  node %d idx %d chain %x ent %+v | G %+v", n.id, i, c, e, w.mon.G[i])
				}
			}
			w.violate("C06", []string{"C01", "C04"}, "node %d: log prefix up to its commit index %d differs from the committed log (%s)", n.id, st.Commit, kind)
		}
	}
}

// extendAgree maintains agreeUpTo: the largest j with log[..j] == G[..j].
func (w *World) extendAgree(n *node, st *raft.VerifState) {
	m := w.mon
	if n.agreeUpTo < n.shadowBase {
		if g, ok := m.G[n.shadowBase]; ok && n.shadowBaseOK && g.chain == n.shadowBaseChain {
			n.agreeUpTo = n.shadowBase
		} else if !ok {
			return
		} else {
			return
		}
	}
	top := min(m.gLen, st.LastIndex)
	for n.agreeUpTo < top {
		e, ok := n.shadowAt(n.agreeUpTo + 1)
		if !ok {
			break
		}
		g, ok := m.G[n.agreeUpTo+1]
		if !ok || g.chain != e.Chain {
			break
		}
		n.agreeUpTo++
	}
}

func (w *World) monitors(n *node, kind string, in *pb.Message, pre, post *raft.VerifState, created []*pb.Message) {
	m := w.mon
	// fill acknowledgement chain hashes now that the shadow is current
	fill := func(ms []msgMeta) {
		for i := len(ms) - 1; i >= 0 && ms[i].createStep == w.clock && !ms[i].ackChainOK; i-- {
			if ms[i].typ == pb.MsgAppResp && !ms[i].reject {
				if c, ok := n.shadowChain(ms[i].index); ok {
					ms[i].ackChain, ms[i].ackChainOK = c, true
				}
			}
		}
	}
	fill(n.outNow)
	fill(n.outAfter)

	// ---- I4 / basic shape
	if !(post.Applied <= post.Applying && post.Applying <= post.Commit && post.Commit <= post.LastIndex) {
		w.violate("C08", []string{"C06"}, "node %d: cursors out of order applied=%d applying=%d commit=%d last=%d (%s)", n.id, post.Applied, post.Applying, post.Commit, post.LastIndex, kind)
	}
	if post.UnstableOffset > post.OffsetInProgress {
		w.violate("C18", nil, "node %d: unstable offset %d > in-progress offset %d (%s)", n.id, post.UnstableOffset, post.OffsetInProgress, kind)
	}
	// ---- C07 in memory
	if post.Term < pre.Term {
		w.violate("C07", nil, "node %d: term went back %d -> %d (%s)", n.id, pre.Term, post.Term, kind)
	}
	if post.Commit < pre.Commit {
		w.violate("C07", []string{"C09", "C06"}, "node %d: commit went back %d -> %d (%s)", n.id, pre.Commit, post.Commit, kind)
	}
	if post.Term == pre.Term && pre.Vote != 0 && post.Vote != pre.Vote {
		w.violate("C07", []string{"C02"}, "node %d: vote changed in term %d: %d -> %d (%s)", n.id, post.Term, pre.Vote, post.Vote, kind)
	}
	if in != nil && in.GetTerm() != 0 && in.GetTerm() < pre.Term && (post.Term != pre.Term || post.Vote != pre.Vote || post.Role != pre.Role && post.Role == raft.StateLeader) {
		w.violate("C07", nil, "node %d changed term/vote on a lower-term %s (term %d < %d)", n.id, in.GetType(), in.GetTerm(), pre.Term)
	}

	if pre.PendingSnapIndex != 0 && post.PendingSnapIndex != pre.PendingSnapIndex {
		ok := post.PendingSnapIndex > pre.PendingSnapIndex && in != nil && in.GetType() == pb.MsgSnap
		if post.PendingSnapIndex == 0 {
			switch {
			case kind == "advance" && m.advancing != nil && m.advancing.Snapshot.GetMetadata().GetIndex() == pre.PendingSnapIndex:
				ok = true
			case in != nil && in.GetType() == pb.MsgStorageAppendResp && in.GetSnapshot().GetMetadata().GetIndex() == pre.PendingSnapIndex:
				ok = true
			}
		}
		if !ok {
			w.violate("C09", []string{"C18", "C08"}, "node %d: the snapshot it accepted at index %d is no longer pending after %s (pending now: %d) although its persistence was not acknowledged", n.id, pre.PendingSnapIndex, kind, post.PendingSnapIndex)
		}
	}
	w.monCommit(n, kind, in, pre, post)
	w.monElection(n, kind, in, pre, post, created)
	w.monMatch(n, kind, in, pre, post)
	w.monFlow(n, kind, in, pre, post, created)
	w.monSnapshot(n, kind, in, pre, post, created)
	w.monConf(n, kind, in, pre, post)
	w.monProposals(n, kind, in, pre, post, created)
	w.monReads(n, kind, in, pre, post, created)
	w.extendAgree(n, post)
	_ = m
}

// monCommit: C06 and the canonical committed log.
func (w *World) monCommit(n *node, kind string, in *pb.Message, pre, post *raft.VerifState) {
	m := w.mon
	if post.Commit > post.LastIndex {
		w.violate("C06", nil, "node %d: commit %d > last index %d (%s)", n.id, post.Commit, post.LastIndex, kind)
		return
	}
	if post.Commit == pre.Commit {
		return
	}
	if post.Role == raft.StateLeader {
		c := post.Commit
		e, ok := n.shadowAt(c)
		if !ok {
			return
		}
		if e.Term != post.Term {
			w.violate("C06", []string{"C01", "C04"}, "leader %d of term %d advanced its commit index to %d whose entry has term %d (%s)", n.id, post.Term, c, e.Term, kind)
		}
		if !model.HasQuorum(func(id uint64) bool { return w.diskHolds(id, c, e.Chain) }, voters(post.Conf)...) {
			var who []uint64
			for _, id := range w.ids {
				if w.diskHolds(id, c, e.Chain) {
					who = append(who, id)
				}
			}
			w.violate("C06", []string{"C01", "C05"}, "leader %d (term %d) advanced its commit index %d->%d but entry %d is durable only on %v; configuration %s (%s)", n.id, post.Term, pre.Commit, c, c, who, confOf(post.Conf), kind)
		}
		w.Stats["leader-commit-advances"]++
		w.sample("C06", func() any {
			var who []uint64
			for _, id := range w.ids {
				if w.diskHolds(id, c, e.Chain) {
					who = append(who, id)
				}
			}
			return map[string]any{"leader": n.id, "term": post.Term, "commit_from": pre.Commit, "commit_to": c, "entry_term": e.Term, "durable_on": who, "config": confOf(post.Conf).String(), "call": kind}
		})
		if len(post.Conf.GetVotersOutgoing()) > 0 {
			w.Stats["leader-commit-advances-joint"]++
		}
		if kind == "applycc" {
			w.Stats["leader-commit-advances-by-confchange"]++
		}
		lo := max(pre.Commit+1, post.FirstIndex)
		for i := lo; i <= c; i++ {
			se, ok := n.shadowAt(i)
			if !ok {
				break
			}
			ge := gEnt{term: se.Term, typ: se.Type, dh: dhash(se.Data), chain: se.Chain, cterm: post.Term, who: fmt.Sprintf("%d#%d", n.id, n.inc)}
			if old, ok := m.G[i]; ok {
				if old.chain != ge.chain || old.term != ge.term {
					w.violate("C01", []string{"C06", "C04", "C02"}, "index %d committed twice with different content: (term %d) by %s and (term %d) by leader %s of term %d", i, old.term, old.who, ge.term, ge.who, post.Term)
				}
			} else {
				m.G[i] = ge
				m.commitClock[i] = w.clock
				if w.keepLog {
					w.logf("G[%d] = term %d chain %x by %s (shadowBase %d ok=%v basechain %x)", i, ge.term, ge.chain, ge.who, n.shadowBase, n.shadowBaseOK, n.shadowBaseChain)
				}
			}
		}
		if c > m.gLen {
			m.gLen = c
		}
		if c > m.maxByCterm[post.Term] {
			m.maxByCterm[post.Term] = c
		}
		return
	}
	// follower / candidate commit advance
	src := "other"
	if in != nil {
		src = in.GetType().String()
	}
	w.Stats["follower-commit-advances-"+src]++
	w.checkCommitPrefix(n, post, kind)
}

// monMatch: invariant I1 (C06 mechanism): Match is bounded by delivered acks.
func (w *World) monMatch(n *node, kind string, in *pb.Message, pre, post *raft.VerifState) {
	if post.Role != raft.StateLeader {
		return
	}
	if pre.Role != raft.StateLeader || pre.Term != post.Term {
		n.maxAck = map[uint64]uint64{}
	}
	if in != nil && in.GetType() == pb.MsgAppResp && !in.GetReject() && in.GetTerm() == post.Term {
		if in.GetIndex() > n.maxAck[in.GetFrom()] {
			n.maxAck[in.GetFrom()] = in.GetIndex()
		}
	}
	for p, pr := range post.Progress {
		if p != n.id && pr.Match > n.maxAck[p] {
			w.violate("C06", []string{"C01"}, "I1: leader %d (term %d) has Match[%d]=%d above the highest acknowledgement delivered from it in this term (%d) (%s)", n.id, post.Term, p, pr.Match, n.maxAck[p], kind)
		}
		if pr.Match >= pr.Next {
			w.violate("C06", []string{"C16"}, "I1: leader %d has Match[%d]=%d >= Next %d (%s)", n.id, p, pr.Match, pr.Next, kind)
		}
		if pr.Match > post.LastIndex {
			w.violate("C06", nil, "I1: leader %d has Match[%d]=%d beyond its last index %d", n.id, p, pr.Match, post.LastIndex)
		}
	}
}

// monElection: C02, C04, C17.
func (w *World) monElection(n *node, kind string, in *pb.Message, pre, post *raft.VerifState, created []*pb.Message) {
	m := w.mon
	E := w.Cfg.ElectionTick
	// a vote is granted only to an up-to-date candidate
	if in != nil && in.GetType() == pb.MsgVote {
		for _, c := range created {
			if c.GetType() == pb.MsgVoteResp && !c.GetReject() && c.GetTo() == in.GetFrom() {
				if !(in.GetLogTerm() > pre.LastTerm || (in.GetLogTerm() == pre.LastTerm && in.GetIndex() >= pre.LastIndex)) {
					w.violate("C02", []string{"C04"}, "node %d granted its vote to %d whose log (%d,%d) is behind its own (%d,%d)", n.id, in.GetFrom(), in.GetLogTerm(), in.GetIndex(), pre.LastTerm, pre.LastIndex)
				}
				if post.Vote != in.GetFrom() || post.Term != in.GetTerm() {
					w.violate("C02", []string{"C07"}, "node %d granted its vote to %d for term %d but its state says term %d vote %d", n.id, in.GetFrom(), in.GetTerm(), post.Term, post.Vote)
				}
				w.Stats["grants-created"]++
			}
		}
	}
	// candidacy tracking
	newCandidacy := post.Role == raft.StateCandidate && (pre.Role != raft.StateCandidate || pre.Term != post.Term)
	if newCandidacy || post.Role == raft.StateFollower || post.Role == raft.StatePreCandidate {
		n.grants = nil
	}
	if in != nil && in.GetType() == pb.MsgVoteResp && !in.GetReject() && pre.Role == raft.StateCandidate && in.GetTerm() == pre.Term {
		if n.grants == nil {
			n.grants = map[uint64]bool{}
		}
		n.grants[in.GetFrom()] = true
	}
	if newCandidacy || post.Role == raft.StateFollower || post.Role == raft.StateLeader || (post.Role == raft.StatePreCandidate && pre.Role != raft.StatePreCandidate) {
		n.answers = nil
	}
	if in != nil && (in.GetType() == pb.MsgVoteResp && pre.Role == raft.StateCandidate && in.GetTerm() == pre.Term ||
		in.GetType() == pb.MsgPreVoteResp && pre.Role == raft.StatePreCandidate && (in.GetTerm() == pre.Term+1 && !in.GetReject() || in.GetTerm() == pre.Term && in.GetReject())) {
		if n.answers == nil {
			n.answers = map[uint64]bool{}
		}
		if _, seen := n.answers[in.GetFrom()]; !seen {
			n.answers[in.GetFrom()] = !in.GetReject()
		}
		if post.Role == pre.Role && post.Term == pre.Term {
			// still campaigning: the answers delivered so far must not already decide the vote
			if model.JointVote(post.Conf.GetVoters(), post.Conf.GetVotersOutgoing(), n.answers) == model.VoteLost {
				w.violate("C12", []string{"C02"}, "node %d (%v, term %d) keeps campaigning although the answers delivered to it (%v) make a majority impossible in configuration %s", n.id, post.Role, post.Term, n.answers, confOf(post.Conf))
			}
			w.Stats["vote-tallies-checked"]++
		}
	}
	if in != nil && in.GetType() == pb.MsgPreVoteResp && !in.GetReject() && pre.Role == raft.StatePreCandidate && in.GetTerm() == pre.Term+1 {
		if n.pregrants == nil {
			n.pregrants = map[uint64]bool{}
		}
		n.pregrants[in.GetFrom()] = true
	}
	for _, c := range created {
		if c.GetType() == pb.MsgPreVote {
			// a new pre-campaign started in this call: grants delivered before it do not count
			if !(in != nil && in.GetType() == pb.MsgPreVoteResp) {
				n.pregrants = nil
				n.answers = nil
			}
			break
		}
	}
	if post.Role == raft.StatePreCandidate && pre.Role != raft.StatePreCandidate {
		if !(in != nil && in.GetType() == pb.MsgPreVoteResp) {
			n.pregrants = nil
		}
	}
	// became leader
	if post.Role == raft.StateLeader && (pre.Role != raft.StateLeader || pre.Term != post.Term) {
		me := leaderRec{n.id, n.inc, w.clock}
		if old, ok := m.leaderOf[post.Term]; ok && (old.node != n.id || old.inc != n.inc) {
			if old.node == n.id {
				w.violate("C02", []string{"C05"}, "node %d leads term %d again (incarnation %d) after an earlier incarnation (%d) already did", n.id, post.Term, n.inc, old.inc)
			} else {
				w.violate("C02", nil, "two leaders in term %d: node %d (incarnation %d) and node %d (incarnation %d)", post.Term, old.node, old.inc, n.id, n.inc)
			}
		} else if !ok {
			m.leaderOf[post.Term] = me
		}
		g := map[uint64]bool{}
		for v := range n.grants {
			g[v] = true
		}
		d := n.disk
		if d.HasHS && d.Term == post.Term && d.Vote == n.id {
			g[n.id] = true
		}
		if model.JointVote(post.Conf.GetVoters(), post.Conf.GetVotersOutgoing(), g) != model.VoteWon {
			var gs []uint64
			for v := range g {
				gs = append(gs, v)
			}
			sort.Slice(gs, func(i, j int) bool { return gs[i] < gs[j] })
			w.violate("C02", []string{"C05", "C10"}, "node %d became leader of term %d with grants from %v (own vote durable: %v), configuration %s (%s)", n.id, post.Term, gs, g[n.id], confOf(post.Conf), kind)
		}
		w.Stats["elections-won"]++
		w.sample("C02", func() any {
			var gs []uint64
			for v := range g {
				gs = append(gs, v)
			}
			sort.Slice(gs, func(i, j int) bool { return gs[i] < gs[j] })
			return map[string]any{"term": post.Term, "winner": fmt.Sprintf("%d#%d", n.id, n.inc), "grants_delivered_incl_own_durable_vote": gs, "config": confOf(post.Conf).String(), "last": []uint64{post.LastIndex, post.LastTerm}}
		})
		w.sample("C04", func() any {
			var need uint64
			for ct, mx := range m.maxByCterm {
				if ct < post.Term && mx > need {
					need = mx
				}
			}
			return map[string]any{"new_leader": fmt.Sprintf("%d#%d", n.id, n.inc), "term": post.Term, "leader_last_index": post.LastIndex, "highest_index_committed_in_earlier_terms": need, "committed_log_length": m.gLen}
		})
		if len(post.Conf.GetVotersOutgoing()) > 0 {
			w.Stats["elections-won-joint"]++
		}
		if n.inc > 1 {
			w.Stats["elections-won-after-restart"]++
		}
		if !g[n.id] {
			// the grants of the peers may be a majority without it, but the node now
			// speaks as leader of a term its stable storage does not know: a crash here
			// restarts it below that term, free to vote for - or be - another leader of it
			w.Stats["elections-won-before-own-vote-durable"]++
			w.violate("C05", []string{"C02"}, "node %d became leader of term %d (%s) while its durable hard state is %v: its own vote for that term is not on stable storage yet", n.id, post.Term, kind, d.hardState())
		}
		n.grants = nil
		n.leaderSince = w.clock
		n.leadTerm = post.Term
		n.hbAck = map[uint64]int{}
		// known-finding root events
		if inc, ok := m.campaigned[[2]uint64{n.id, post.Term}]; ok && inc != n.inc && m.taintF1b == "" {
			m.taintF1b = fmt.Sprintf("node %d (incarnation %d) won term %d in which its incarnation %d had already sent MsgVote", n.id, n.inc, post.Term, inc)
		}
		if n.confRegressed && m.taintF6 == "" {
			m.taintF6 = fmt.Sprintf("node %d won term %d using a configuration older than one an earlier incarnation had applied", n.id, post.Term)
		}
		// C04 leader completeness
		var need uint64
		for ct, mx := range m.maxByCterm {
			if ct < post.Term && mx > need {
				need = mx
			}
		}
		if need > post.LastIndex {
			w.violate("C04", []string{"C01"}, "new leader %d of term %d has last index %d but index %d was committed in an earlier term", n.id, post.Term, post.LastIndex, need)
		} else if need > 0 {
			if c, ok := n.shadowChain(need); ok {
				if g, ok2 := m.G[need]; ok2 && g.chain != c {
					w.violate("C04", []string{"C01"}, "new leader %d of term %d lacks entries committed in earlier terms: its log differs from the committed log at or below index %d", n.id, post.Term, need)
				}
			}
			w.Stats["leader-completeness-checked"]++
			if post.LastIndex < m.gLen {
				w.Stats["leader-elected-behind-committed"]++
			}
		}
	}
	// C17(a): term raised to campaign
	if n.cfg.PreVote && post.Role == raft.StateCandidate && post.Term > pre.Term {
		forced := in != nil && in.GetType() == pb.MsgTimeoutNow
		if !forced {
			if pre.Role != raft.StatePreCandidate {
				w.violate("C17", nil, "PreVote node %d became candidate from %v without a pre-vote phase (%s)", n.id, pre.Role, kind)
			}
			g := map[uint64]bool{n.id: true}
			for v := range n.pregrants {
				g[v] = true
			}
			if model.JointVote(post.Conf.GetVoters(), post.Conf.GetVotersOutgoing(), g) != model.VoteWon {
				var gs []uint64
				for v := range g {
					gs = append(gs, v)
				}
				sort.Slice(gs, func(i, j int) bool { return gs[i] < gs[j] })
				w.violate("C17", nil, "PreVote node %d raised its term to %d with pre-vote grants for that term only from %v, configuration %s (%s)", n.id, post.Term, gs, confOf(post.Conf), kind)
			}
			w.Stats["prevote-campaigns"]++
		} else {
			w.Stats["forced-campaigns"]++
		}
		n.pregrants = nil
	}
	if post.Role == raft.StateCandidate && post.Term > pre.Term && in != nil && in.GetType() == pb.MsgTimeoutNow {
		w.Stats["transfer-campaigns"]++
	}
	if in != nil && in.GetType() == pb.MsgPreVoteResp && !in.GetReject() && post.Term > pre.Term && post.Role != raft.StateCandidate {
		w.violate("C17", []string{"C07"}, "node %d raised its term %d -> %d on a granted MsgPreVoteResp without becoming a candidate (role %v -> %v)", n.id, pre.Term, post.Term, pre.Role, post.Role)
	}
	// C17(b)
	if in != nil && in.GetType() == pb.MsgPreVote {
		if post.Term != pre.Term || post.Vote != pre.Vote {
			w.violate("C17", nil, "MsgPreVote changed term/vote at node %d: %d/%d -> %d/%d", n.id, pre.Term, pre.Vote, post.Term, post.Vote)
		}
		w.Stats["prevote-requests-delivered"]++
	}
	// C17(c) in-lease
	if kind == "tick" {
		n.ticksSinceLeader++
	}
	if in != nil && pre.Term <= in.GetTerm() && (in.GetType() == pb.MsgApp || in.GetType() == pb.MsgHeartbeat || in.GetType() == pb.MsgSnap) && in.GetTerm() == post.Term {
		n.ticksSinceLeader = 0
	}
	if post.Lead != pre.Lead && post.Lead != 0 {
		n.ticksSinceLeader = 0
	}
	if in != nil && (in.GetType() == pb.MsgVote || in.GetType() == pb.MsgPreVote) && in.GetTerm() > pre.Term && n.cfg.CheckQuorum &&
		pre.Lead != 0 && pre.Lead != n.id && n.ticksSinceLeader < E && string(in.GetContext()) != "CampaignTransfer" && pre.Role == raft.StateFollower {
		// harness-in-lease implies raft-in-lease only if the harness counter is
		// >= raft's electionElapsed; cross-check and treat disagreement as
		// inconclusive rather than as a violation
		if pre.ElectionElapsed > n.ticksSinceLeader {
			w.Stats["inlease-counter-behind"]++
		} else {
			w.Stats["inlease-requests"]++
			w.sample("C17", func() any {
				return map[string]any{"node": n.id, "request": in.GetType().String(), "from": in.GetFrom(), "request_term": in.GetTerm(), "own_term": pre.Term, "leader": pre.Lead, "ticks_since_leader_heard": n.ticksSinceLeader, "election_tick": E, "term_after": post.Term, "vote_after": post.Vote}
			})
			if post.Term != pre.Term || post.Vote != pre.Vote {
				w.violate("C17", nil, "CheckQuorum node %d, %d ticks after hearing from leader %d, changed term/vote on %s: %d/%d -> %d/%d", n.id, n.ticksSinceLeader, pre.Lead, in.GetType(), pre.Term, pre.Vote, post.Term, post.Vote)
			}
			for _, c := range created {
				if (c.GetType() == pb.MsgVoteResp || c.GetType() == pb.MsgPreVoteResp) && !c.GetReject() && c.GetTo() == in.GetFrom() {
					w.violate("C17", nil, "CheckQuorum node %d granted %s within its leader lease", n.id, c.GetType())
				}
			}
		}
	}
	// C17(d): CheckQuorum leader steps down within 2E of last quorum contact
	if post.Role == raft.StateLeader {
		if pre.Role != raft.StateLeader || pre.Term != post.Term {
			n.leadTicks = 0
			n.lastHeard = map[uint64]int{}
		}
		if kind == "tick" {
			n.leadTicks++
		}
		now := n.leadTicks
		if in != nil && in.GetFrom() != 0 && in.GetFrom() != n.id && !raft.IsLocalMsgTarget(in.GetFrom()) {
			n.lastHeard[in.GetFrom()] = now
		}
		if kind == "transfer" || kind == "applycc" || (in != nil && in.GetType() == pb.MsgTransferLeader) {
			for id := range post.Progress {
				n.lastHeard[id] = now
			}
		}
		for id := range post.Progress {
			if _, ok := pre.Progress[id]; !ok {
				n.lastHeard[id] = now
			}
		}
		if n.cfg.CheckQuorum && kind == "tick" {
			lh := n.lastHeard
			if !model.HasQuorum(func(id uint64) bool { return id == n.id || now-lh[id] <= 2*E }, voters(post.Conf)...) {
				w.violate("C17", nil, "CheckQuorum leader %d still leads at its tick %d although it last heard from peers at %v; configuration %s", n.id, now, lh, confOf(post.Conf))
			}
			w.Stats["checkquorum-leader-ticks"]++
		}
	}
	w.monReadOnlyModel(n, kind, in, pre, post, created)
	// C17(d'): reference model of the quorum check itself. At the tick on which the
	// leader's election timer wraps it must step down unless a quorum of the current
	// configuration was heard from (any message) or added since the previous check.
	if post.Role == raft.StateLeader && (pre.Role != raft.StateLeader || pre.Term != post.Term) {
		n.cqHeard = map[uint64]bool{}
	}
	if pre.Role == raft.StateLeader && pre.Term == post.Term {
		if n.cqHeard == nil {
			n.cqHeard = map[uint64]bool{}
		}
		if in != nil && in.GetFrom() != 0 && in.GetFrom() != n.id && !raft.IsLocalMsgTarget(in.GetFrom()) {
			n.cqHeard[in.GetFrom()] = true
		}
		for id, pp := range post.Progress {
			if q, ok := pre.Progress[id]; !ok || (kind == "applycc" && pp.RecentActive && !q.RecentActive) {
				n.cqHeard[id] = true
			}
		}
		if kind == "tick" && pre.ElectionElapsed+1 >= E {
			if n.cfg.CheckQuorum {
				heard := n.cqHeard
				w.Stats["checkquorum-rounds"]++
				if !model.HasQuorum(func(id uint64) bool { return id == n.id || heard[id] }, voters(pre.Conf)...) {
					w.Stats["checkquorum-rounds-without-quorum"]++
					if post.Role == raft.StateLeader {
						w.violate("C17", []string{"C12"}, "CheckQuorum leader %d passed its quorum check (election timer wrapped at this tick) although since the previous check it heard only from %v and no peer was added; configuration %s", n.id, keysOf(heard), confOf(pre.Conf))
					}
				}
			}
			n.cqHeard = map[uint64]bool{}
		}
	}
	if pre.Role == raft.StateLeader && post.Role == raft.StateFollower && kind == "tick" {
		w.Stats["checkquorum-stepdowns"]++
	}
	_ = tracker.StateProbe
}

func keysOf(m map[uint64]bool) []uint64 {
	var out []uint64
	for k, v := range m {
		if v {
			out = append(out, k)
		}
	}
	sort.Slice(out, func(i, j int) bool { return out[i] < out[j] })
	return out
}
