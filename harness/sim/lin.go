package sim

import (
	"fmt"
	"os"
	"time"

	"github.com/anishathalye/porcupine"
	pb "go.etcd.io/raft/v3/raftpb"
)

const timeScale = 16384

type kvIn struct {
	Write bool
	Key   int
	Val   string
}

var kvModel = porcupine.Model{
	Partition: func(history []porcupine.Operation) [][]porcupine.Operation {
		m := map[int][]porcupine.Operation{}
		var keys []int
		for _, op := range history {
			k := op.Input.(kvIn).Key
			if _, ok := m[k]; !ok {
				keys = append(keys, k)
			}
			m[k] = append(m[k], op)
		}
		out := make([][]porcupine.Operation, 0, len(keys))
		for _, k := range keys {
			out = append(out, m[k])
		}
		return out
	},
	Init: func() any { return "" },
	Step: func(state, input, output any) (bool, any) {
		in := input.(kvIn)
		if in.Write {
			return true, in.Val
		}
		return output.(string) == state.(string), state
	},
	DescribeOperation: func(input, output any) string {
		in := input.(kvIn)
		if in.Write {
			return fmt.Sprintf("put(k%d,%s)", in.Key, in.Val)
		}
		return fmt.Sprintf("get(k%d)->%s", in.Key, output)
	},
}

// checkLinearizable is the end-to-end C11 check: Put = Propose (acknowledged
// when the first node applies the entry), Get = ReadIndex at any node
// answered from local state once applied >= read index. History times are
// logical steps; the register model is partitioned by key.
func (w *World) checkLinearizable() {
	if w.Cfg.Prop != "C11" {
		return
	}
	m := w.mon
	var maxIdx uint64
	for i := range m.deliveredKV {
		if i > maxIdx {
			maxIdx = i
		}
	}
	var ops []porcupine.Operation
	valueAt := func(idx uint64, key int) string {
		for i := idx; i >= 1; i-- {
			if p, ok := m.deliveredKV[i]; ok && payloadKey([]byte(p)) == key {
				return fmt.Sprintf("%s@%d", trunc([]byte(p)), i)
			}
		}
		return ""
	}
	id := 0
	lastC, pos := -1, 0
	for i := uint64(1); i <= maxIdx; i++ {
		p, ok := m.deliveredKV[i]
		if !ok {
			continue
		}
		pr := m.proposals[p]
		if pr == nil {
			continue
		}
		// The write takes effect when a leader first commits its index; that
		// instant lies between the Propose call and every acknowledgement a
		// client could get, so using it as the operation's (tiny) interval
		// only strengthens the check and keeps the search trivial.
		c, ok := m.commitClock[i]
		if !ok {
			continue
		}
		_ = pr
		if c == lastC {
			pos++
		} else {
			lastC, pos = c, 0
		}
		t := int64(c)*timeScale + int64(min(pos, 2000))*4
		ops = append(ops, porcupine.Operation{ClientId: id, Input: kvIn{true, payloadKey([]byte(p)), fmt.Sprintf("%s@%d", trunc([]byte(p)), i)}, Call: t, Output: "", Return: t + 1})
		id++
	}
	gets := 0
	type rd struct {
		key      int
		val      string
		call, rt int64
	}
	var reads []rd
	for _, op := range m.kv {
		if op.write || op.open || op.ret < 0 {
			continue
		}
		var at uint64
		fmt.Sscan(op.val, &at)
		reads = append(reads, rd{op.key, valueAt(at, op.key), int64(op.call)*timeScale + timeScale - 2, int64(op.ret)*timeScale + timeScale - 1})
	}
	// A read whose interval contains the interval of another read of the same
	// key with the same result is implied by that one: drop it (keeps the
	// search small when many identical reads overlap).
	for i, a := range reads {
		implied := false
		for j, b := range reads {
			if i == j || a.key != b.key || a.val != b.val {
				continue
			}
			if b.call >= a.call && b.rt <= a.rt && (b.call > a.call || b.rt < a.rt || j < i) {
				implied = true
				break
			}
		}
		if implied {
			w.Stats["porcupine-gets-implied"]++
			continue
		}
		ops = append(ops, porcupine.Operation{ClientId: id, Input: kvIn{false, a.key, ""}, Call: a.call, Output: a.val, Return: a.rt})
		id++
		gets++
	}
	if gets == 0 {
		return
	}
	if os.Getenv("RV_LINDUMP") != "" {
		for _, op := range ops {
			fmt.Printf("LIN %6d %6d %s\n", op.Call, op.Return, kvModel.DescribeOperation(op.Input, op.Output))
		}
	}
	res, _ := porcupine.CheckOperationsVerbose(kvModel, ops, 5*time.Second)
	w.Stats["porcupine-histories"]++
	w.Stats["porcupine-ops"] += len(ops)
	w.Stats["porcupine-gets"] += gets
	switch res {
	case porcupine.Illegal:
		w.violate("C11", nil, "history of %d operations (%d reads through ReadIndex) is not linearizable", len(ops), gets)
	case porcupine.Unknown:
		w.inconclusive("porcupine timed out on %d operations", len(ops))
		w.Stats["porcupine-unknown"]++
	}
}

var _ = pb.EntryNormal
