package sim

import (
	"fmt"
	"os"
	"math"
	"math/rand"
	"sort"

	"go.etcd.io/raft/v3"
	pb "go.etcd.io/raft/v3/raftpb"
	"google.golang.org/protobuf/proto"
)

// base profiles ---------------------------------------------------------

func baseProfile() Profile {
	return Profile{Name: "kitchen-sink",
		WTick: 18, WDeliver: 30, WNet: 2, WRead: 2, WPropose: 6, WMisc: 5, WCrash: 3, WReady: 22, WStorage: 8, WSelf: 7,
		DropPct: 5, DupPct: 5, StalePct: 30, CrashPct: 20, AppLagPct: 30, CompactPct: 30, CCPct: 30, TransferPct: 12, BigPct: 5, CampaignPct: 12,
		FIFOPct: 33, RestartPct: 25, CalmMin: 250, HostileMin: 60}
}

// Profiles returns the named profile.
func profileByName(name string, r *rand.Rand) Profile {
	p := baseProfile()
	p.Name = name
	switch name {
	case "steady":
		p.DropPct, p.CrashPct, p.StalePct, p.WNet, p.CCPct = 1, 3, 5, 1, 10
		p.WPropose = 10
	case "election-storm":
		p.WTick, p.DropPct, p.CampaignPct, p.WPropose, p.CrashPct = 32, 20, 40, 3, 10
	case "partition":
		p.WNet, p.DropPct, p.StalePct = 5, 10, 60
	case "crash-heavy":
		p.WCrash, p.CrashPct, p.RestartPct, p.AppLagPct = 5, 100, 40, 50
	case "async-lag":
		p.AppLagPct, p.WStorage, p.CrashPct, p.WCrash = 90, 6, 40, 4
		p.ReadyLagPct = 50
		p.SelfStallPct = 40
	case "snapshot":
		p.CompactPct, p.WMisc, p.CCPct, p.DropPct, p.WNet, p.CrashPct, p.WCrash, p.WPropose = 100, 9, 30, 10, 5, 30, 4, 9
	case "partition-lag":
		// divergent tails while appends are in flight: partitions and leader
		// changes with starved storage threads
		p.AppLagPct, p.WNet, p.DropPct, p.StalePct, p.WTick, p.CampaignPct, p.CrashPct, p.WPropose, p.ReadyLagPct = 90, 6, 10, 50, 22, 40, 15, 12, 40
		p.HostileMin, p.CalmMin = 120, 150
		p.SelfStallPct = 60
	case "rival-leaders":
		// two or more nodes keep taking leadership from each other while their
		// uncommitted tails reach (almost) only one follower, whose storage
		// acknowledgements come back late: the same index is written, overwritten and
		// restored under acknowledgements that are several terms old
		p.AppLagPct, p.WNet, p.DropPct, p.StalePct, p.WTick, p.CampaignPct, p.CrashPct, p.WPropose, p.ReadyLagPct = 85, 2, 5, 30, 20, 100, 5, 14, 20
		p.WMisc, p.CCPct, p.TransferPct, p.CompactPct = 12, 5, 5, 10
		p.HostileMin, p.CalmMin = 200, 100
		p.SelfStallPct, p.FavourPct = 100, 90
	case "snapshot-lag":
		// snapshots and compaction while storage threads lag and terms change
		p.CompactPct, p.WMisc, p.AppLagPct, p.DropPct, p.WTick, p.CampaignPct, p.WNet, p.CrashPct, p.CCPct, p.WPropose = 100, 9, 85, 10, 22, 40, 5, 15, 30, 9
		p.ReadyLagPct = 75
		p.SelfStallPct = 50
	case "churn":
		p.CCPct, p.WMisc, p.CrashPct, p.DropPct = 100, 9, []int{0, 10}[r.Intn(2)], []int{0, 5}[r.Intn(2)]
	case "churn-lag":
		// membership changes while apply threads lag and links flap: elections
		// under configurations that are a few changes behind
		p.CCPct, p.WMisc, p.AppLagPct, p.WNet, p.WTick, p.CrashPct, p.DropPct, p.CampaignPct = 100, 9, 90, 5, 24, 5, 5, 30
		p.ReadyLagPct = 60
	case "flow":
		p.BigPct, p.WPropose, p.DropPct, p.DupPct, p.StalePct, p.CrashPct = 40, 16, 15, 15, 40, 5
	case "read":
		p.WRead, p.WNet, p.CrashPct = 10, 4, 10
	case "read-storm":
		// many reads while leadership keeps changing (the same node leads several times)
		p.WRead, p.WTick, p.DropPct, p.CampaignPct, p.WMisc, p.CrashPct, p.TransferPct, p.CCPct = 14, 24, 8, 60, 7, 5, 40, 10
	case "transfer":
		p.TransferPct, p.WMisc, p.CrashPct = 60, 8, 5
	case "opfuzz":
		// every local operation at every role
		p.WMisc, p.CampaignPct, p.TransferPct, p.CompactPct, p.CCPct, p.WRead, p.CrashPct = 22, 100, 100, 100, 60, 4, 10
	case "calm":
		p.DropPct, p.CrashPct, p.StalePct, p.DupPct, p.WNet, p.WCrash = 0, 0, 0, 0, 0, 0
	case "kitchen-sink":
		p.DropPct = []int{0, 5, 20, 40}[r.Intn(4)]
		p.CrashPct = []int{0, 10, 40, 100}[r.Intn(4)]
		p.AppLagPct = []int{0, 50, 90}[r.Intn(3)]
		p.CompactPct = []int{0, 30, 100}[r.Intn(3)]
		p.StalePct = []int{0, 50, 100}[r.Intn(3)]
		p.CCPct = []int{0, 30, 100}[r.Intn(3)]
		p.ReadyLagPct = []int{0, 0, 40, 80}[r.Intn(4)]
		p.SelfStallPct = []int{0, 0, 30, 60}[r.Intn(4)]
	default:
		panic("harness: unknown profile " + name)
	}
	return p
}

// mixes: which profiles feed which property (weights).
var profileMix = map[string][]string{
	"C01": {"crash-heavy", "crash-heavy", "async-lag", "churn", "partition", "kitchen-sink", "snapshot"},
	"C02": {"election-storm", "election-storm", "crash-heavy", "async-lag", "partition", "transfer", "churn", "kitchen-sink"},
	"C03": {"partition", "partition-lag", "partition-lag", "rival-leaders", "rival-leaders", "crash-heavy", "async-lag", "kitchen-sink"},
	"C04": {"election-storm", "crash-heavy", "async-lag", "partition", "churn", "transfer", "kitchen-sink"},
	"C05": {"crash-heavy", "crash-heavy", "async-lag", "partition-lag", "partition-lag", "snapshot", "kitchen-sink"},
	"C06": {"steady", "flow", "churn", "partition", "crash-heavy", "kitchen-sink"},
	"C07": {"kitchen-sink", "election-storm", "crash-heavy", "partition", "snapshot"},
	"C08": {"flow", "async-lag", "snapshot", "crash-heavy", "kitchen-sink"},
	"C09": {"snapshot", "snapshot", "snapshot", "snapshot-lag", "churn", "crash-heavy", "kitchen-sink"},
	"C10": {"churn", "churn", "churn", "churn-lag", "snapshot", "election-storm", "kitchen-sink"},
	"C11": {"read", "read", "read-storm", "read-storm", "partition", "election-storm", "churn"},
	"C14": {"kitchen-sink", "kitchen-sink", "churn", "snapshot", "crash-heavy", "async-lag", "flow", "transfer", "election-storm", "opfuzz", "opfuzz", "churn-lag"},
	"C15": {"kitchen-sink", "partition", "churn", "snapshot", "snapshot-lag", "flow", "transfer", "crash-heavy", "async-lag", "election-storm"},
	"C16": {"flow", "flow", "flow", "steady", "partition", "kitchen-sink"},
	"C17": {"partition", "partition", "election-storm", "transfer", "kitchen-sink", "churn"},
	"C19": {"kitchen-sink", "churn", "snapshot", "flow", "read", "transfer"},
	"C20": {"steady", "partition", "transfer", "flow", "churn", "kitchen-sink"},
}

// GenWorld derives a world configuration from (seed, property, index).
func GenWorld(seed int64, prop string, idx int, steps int) WorldCfg {
	h := uint64(seed)*0x9E3779B97F4A7C15 ^ uint64(idx)*0xD6E8FEB86659FD93
	for _, c := range prop {
		h = h*1099511628211 ^ uint64(c)
	}
	ws := int64(h >> 1)
	r := rand.New(rand.NewSource(ws))
	mix := profileMix[prop]
	if mix == nil {
		mix = profileMix["C14"]
	}
	cfg := WorldCfg{Seed: ws, Prop: prop, Steps: steps, HealBound: 120}
	cfg.Prof = profileByName(mix[r.Intn(len(mix))], r)
	if f := os.Getenv("RV_PROFILE"); f != "" {
		cfg.Prof = profileByName(f, r)
	}
	nn := []int{1, 2, 3, 3, 3, 4, 5, 5}[r.Intn(8)]
	if prop == "C11" && r.Intn(2) == 0 {
		nn = 4 + r.Intn(2) // quorums larger than leader + one follower
	}
	if prop == "C19" && r.Intn(4) == 0 {
		nn = 8 + r.Intn(2) // more than 7 peers: the allocation path of ProgressTracker.Visit
	}
	cfg.ElectionTick = []int{3, 5, 10}[r.Intn(3)]
	cfg.HeartbeatTick = []int{1, 1, 2}[r.Intn(3)]
	cfg.Universe = max(nn, min(7, nn+r.Intn(3)))
	if cfg.Prof.Name == "churn" || cfg.Prof.Name == "churn-lag" {
		cfg.Universe = max(nn, min(7, nn+2+r.Intn(2)))
	}
	cfg.Durable = r.Intn(8) != 0
	cfg.Legacy = r.Intn(6) == 0
	cfg.EagerRetire = r.Intn(8) == 0
	// node ids: small integers, or (as etcd derives member ids from hashes) ids
	// spread over the whole uint64 range
	bigIDs := r.Intn(5) == 0
	for i := 1; i <= cfg.Universe; i++ {
		id := uint64(i)
		if bigIDs {
			for {
				id = r.Uint64()
				if r.Intn(3) == 0 {
					id |= 1 << 63
				}
				dup := id == 0 || id >= math.MaxUint64-2
				for _, o := range cfg.IDs {
					if o == id {
						dup = true
					}
				}
				if !dup {
					break
				}
			}
		}
		cfg.IDs = append(cfg.IDs, id)
	}
	if bigIDs {
		sort.Slice(cfg.IDs, func(i, j int) bool { return cfg.IDs[i] < cfg.IDs[j] })
	}
	for i := 1; i <= nn; i++ {
		cfg.Voters = append(cfg.Voters, cfg.IDs[i-1])
	}
	if nn >= 2 && r.Intn(4) == 0 && !cfg.Legacy {
		// last initial member is a learner
		cfg.Learners = []uint64{cfg.IDs[nn-1]}
		cfg.Voters = cfg.Voters[:nn-1]
	}
	allAsync := r.Intn(3)
	if cfg.Prof.Name == "async-lag" || cfg.Prof.Name == "churn-lag" || cfg.Prof.Name == "snapshot-lag" || cfg.Prof.Name == "partition-lag" {
		allAsync = 0
	}
	mixed := r.Intn(3) == 0 // mixed PreVote/CheckQuorum flags
	pv, cq := r.Intn(2) == 0, r.Intn(2) == 0
	cfg.Lease = prop != "C11" && r.Intn(12) == 0
	cfg.SplitHS = r.Intn(5) == 0
	cfg.Nodes = map[uint64]NodeCfg{}
	for _, id := range cfg.IDs {
		nc := NodeCfg{
			Async:             allAsync == 0 || (allAsync == 1 && r.Intn(2) == 0),
			PreVote:           pv,
			CheckQuorum:       cq,
			StepDownOnRemoval: r.Intn(2) == 0,
			DisableFwd:        r.Intn(6) == 0,
			MaxSizePerMsg:     []uint64{0, 1, 64, 256, math.MaxUint64, math.MaxUint64}[r.Intn(6)],
			MaxCommittedSize:  []uint64{0, 0, 1, 64, math.MaxUint64}[r.Intn(5)],
			MaxUncommitted:    []uint64{0, 0, 16, 120}[r.Intn(4)],
			MaxInflight:       []int{1, 2, 4, 256}[r.Intn(4)],
		}
		if mixed {
			nc.PreVote, nc.CheckQuorum = r.Intn(2) == 0, r.Intn(2) == 0
		}
		if nc.MaxSizePerMsg != math.MaxUint64 {
			nc.MaxInflightBytes = []uint64{0, 0, max(nc.MaxSizePerMsg, 40), 512}[r.Intn(4)]
		}
		// one node in eight starts with a byte budget below the message size limit: the
		// documented outcome is that the configuration is refused (see startNode); the
		// decision does not consume from r, so all other draws stay as they were
		if nc.MaxSizePerMsg >= 64 && (h>>9+id*7)%8 == 0 {
			nc.MaxInflightBytes = 48
		}
		if cfg.Prof.Name == "flow" {
			nc.MaxInflight = []int{1, 2, 4}[r.Intn(3)]
			if nc.MaxSizePerMsg == math.MaxUint64 {
				nc.MaxSizePerMsg = 256
			}
			nc.MaxUncommitted = []uint64{0, 16, 120}[r.Intn(3)]
		}
		cfg.Nodes[id] = nc
	}
	return cfg
}

// ---------------------------------------------------------------- scheduler

func pct(r *rand.Rand, p int) bool { return r.Intn(100) < p }

// restartRange returns the legal values of Config.Applied for a restart.
func (w *World) restartRange(n *node) (lo, hi uint64) {
	d := n.disk
	commit := d.SnapIndex
	if d.HasHS && d.Commit > commit {
		commit = d.Commit
	}
	lo = d.SnapIndex
	if w.Cfg.Durable {
		commit = max(commit, d.CStar)
		lo = max(lo, d.CStar)
	}
	hi = min(d.DurApplied, commit, d.lastIndex())
	if hi < lo {
		hi = lo
	}
	return
}

type workItem struct {
	k   string
	n   uint64
	a   uint64
	f   bool
	lag bool // storage-thread work (subject to the profile's lag)
}

// enabledWork lists everything that would make progress right now: deliveries,
// Ready sub-steps, storage-thread steps, self-addressed responses.
func (w *World) enabledWork(r *rand.Rand) []workItem {
	var items []workItem
	seen := 0
	for i, id := range w.order {
		if w.parked(id) {
			continue // waits on a cut link until the network heals (a long delay, not a loss)
		}
		if seen >= 24 { // a window of the oldest messages plus a few random ones
			for j := 0; j < 4; j++ {
				if c := w.order[i+r.Intn(len(w.order)-i)]; !w.parked(c) {
					items = append(items, workItem{k: "deliver", a: uint64(c)})
				}
			}
			break
		}
		seen++
		items = append(items, workItem{k: "deliver", a: uint64(id)})
	}
	for _, id := range w.ids {
		n := w.nodes[id]
		if !n.up() {
			continue
		}
		if n.cfg.Async {
			if n.rn.HasReady() {
				items = append(items, workItem{k: "aready", n: id})
			}
			if len(n.appQ) > 0 {
				items = append(items, workItem{k: "appthr", n: id, f: r.Intn(3) == 0, lag: true})
			}
			if len(n.aplQ) > 0 {
				items = append(items, workItem{k: "aplthr", n: id, lag: true})
			}
			if len(n.selfApp) > 0 && !(id == w.stallNode && w.step < w.stallEnd) {
				items = append(items, workItem{k: "self", n: id, a: 0})
			}
			if len(n.selfApl) > 0 {
				items = append(items, workItem{k: "self", n: id, a: 1})
			}
			continue
		}
		switch {
		case n.rd == nil:
			if n.rn.HasReady() {
				items = append(items, workItem{k: "ready", n: id})
			}
		case !n.persistedEnt:
			items = append(items, workItem{k: "pents", n: id})
		case !n.persistedHS:
			items = append(items, workItem{k: "phs", n: id})
		default:
			if !n.sent {
				items = append(items, workItem{k: "send", n: id})
			}
			if !n.applied {
				items = append(items, workItem{k: "apply", n: id})
			}
			if n.sent && n.applied {
				items = append(items, workItem{k: "advance", n: id})
			}
		}
	}
	return items
}

// parked: about half of the messages that meet a cut link wait there instead of
// being lost; they are delivered - late, possibly after newer traffic - once
// the link is healed.
func (w *World) parked(id int) bool {
	nm := w.net[id]
	if nm == nil || len(w.cut) == 0 || !w.cut[[2]uint64{nm.from, nm.to}] {
		return false
	}
	return (uint32(id)*2654435761)>>16%100 < 50
}

func (w *World) upNodes() []*node {
	var out []*node
	for _, id := range w.ids {
		if n := w.nodes[id]; n.up() {
			out = append(out, n)
		}
	}
	return out
}

// Gen picks the next action. A world alternates between calm phases (no
// faults: the group makes progress, commits, compacts, changes membership) and
// hostile phases (the profile's faults), so that faults hit non-trivial states.
func (w *World) Gen(r *rand.Rand) Action {
	p := &w.Cfg.Prof
	if w.step >= w.phaseEnd {
		w.hostile = !w.hostile
		if w.step == 0 {
			w.hostile = r.Intn(3) == 0
		}
		if w.hostile {
			w.phaseEnd = w.step + p.HostileMin + r.Intn(p.HostileMin*3+1)
			if p.SelfStallPct > 0 && pct(r, p.SelfStallPct) {
				// a slow acknowledgement path: the append thread keeps writing, but
				// what it reports comes back to raft only much later (possibly
				// several terms later)
				var as []uint64
				for _, id := range w.ids {
					if n := w.nodes[id]; n.up() && n.cfg.Async {
						as = append(as, id)
					}
				}
				if len(as) > 0 {
					w.stallNode = as[r.Intn(len(as))]
					w.stallEnd = w.phaseEnd + r.Intn(p.CalmMin+1)
					w.stallStart, w.rivalStage, w.rivalA, w.rivalB = w.step, 0, 0, 0
					if l := w.topLeader(); p.FavourPct > 0 && l != nil {
						// the current leader and one rival that is not the slow node
						var bs []uint64
						for _, id := range w.ids {
							if n := w.nodes[id]; n.up() && id != l.id && id != w.stallNode {
								bs = append(bs, id)
							}
						}
						if len(bs) > 0 && l.id != w.stallNode {
							w.rivalA, w.rivalB = l.id, bs[r.Intn(len(bs))]
						}
					}
				}
			}
		} else {
			w.phaseEnd = w.step + p.CalmMin + r.Intn(p.CalmMin*2+1)
			if len(w.cut) > 0 {
				return Action{K: "healnet"}
			}
		}
	}
	hostile := w.hostile
	// down nodes come back: quickly when calm, at the profile's rate otherwise
	for _, id := range w.ids {
		n := w.nodes[id]
		if n.up() || n.retired {
			continue
		}
		if (!hostile && r.Intn(3) == 0) || (hostile && pct(r, p.RestartPct/4)) {
			lo, hi := w.restartRange(n)
			a := hi
			if hi > lo && r.Intn(3) == 0 {
				a = lo + uint64(r.Intn(int(hi-lo)+1))
			}
			return Action{K: "restart", N: n.id, A: a}
		}
	}
	// rival-leaders: inside the window the rival, then the first leader again, then
	// the slow node itself call an election (at 30%, 55% and 80% of the hostile
	// phase); everything else stays random
	if w.rivalA != 0 && w.step < w.phaseEnd && w.hostile {
		span := w.phaseEnd - w.stallStart
		at := []int{30, 55, 80}
		if w.rivalStage < 3 && (w.step-w.stallStart)*100 >= at[w.rivalStage]*span {
			who := []uint64{w.rivalB, w.rivalA, w.stallNode}[w.rivalStage]
			w.rivalStage++
			if n := w.nodes[who]; n != nil && n.up() {
				return Action{K: "campaign", N: who}
			}
		}
	}
	ups := w.upNodes()
	if len(ups) == 0 {
		for _, id := range w.ids {
			if n := w.nodes[id]; !n.retired {
				_, hi := w.restartRange(n)
				return Action{K: "restart", N: id, A: hi}
			}
		}
		return Action{K: "healnet"}
	}
	// burst: several messages (in flight, or stale copies) reach one node between
	// two of its Readys
	if w.burstLeft > 0 {
		w.burstLeft--
		if t := w.nodes[w.burstNode]; t != nil && t.up() {
			var cand []int
			for _, id := range w.order {
				if nm := w.net[id]; nm != nil && nm.to == w.burstNode {
					cand = append(cand, id)
					if len(cand) >= 8 {
						break
					}
				}
			}
			if len(cand) > 0 && r.Intn(4) != 0 {
				return Action{K: "deliver", A: uint64(cand[r.Intn(len(cand))]), F: r.Intn(8) == 0}
			}
			var oc []int
			for i, nm := range w.old {
				if nm.to == w.burstNode {
					oc = append(oc, i)
				}
			}
			if len(oc) > 0 && hostile && pct(r, p.StalePct/2) {
				return Action{K: "stale", A: uint64(oc[r.Intn(len(oc))])}
			}
		}
		w.burstLeft = 0
	}
	for try := 0; try < 16; try++ {
		n := ups[r.Intn(len(ups))]
		wWork, wTick, wClient, wFault := 100, p.WTick, p.WPropose+p.WRead+p.WMisc, 0
		if hostile {
			wFault = p.WNet + p.WCrash + 2
			wTick += p.WTick / 2
		}
		k := r.Intn(wWork + wTick + wClient + wFault)
		switch {
		case k < wWork:
			items := w.enabledWork(r)
			if len(items) == 0 {
				return Action{K: "tick", N: n.id}
			}
			it := items[r.Intn(len(items))]
			if it.k == "deliver" && pct(r, p.FIFOPct) {
				for _, id := range w.order {
					if !w.parked(id) {
						it = workItem{k: "deliver", a: uint64(id)}
						break
					}
				}
			}
			if it.lag && pct(r, p.AppLagPct) && (hostile || p.AppLagPct >= 80) {
				continue
			}
			if (it.k == "ready" || it.k == "aready") && pct(r, p.ReadyLagPct) {
				continue
			}
			if it.k == "deliver" && p.FavourPct > 0 && hostile && w.step < w.stallEnd {
				if nm := w.net[int(it.a)]; nm != nil && nm.typ == pb.MsgApp && nm.to != w.stallNode && pct(r, p.FavourPct) {
					var m pb.Message
					if proto.Unmarshal(nm.data, &m) == nil && len(m.GetEntries()) > 0 {
						return Action{K: "drop", A: it.a}
					}
				}
			}
			if it.k == "deliver" {
				if hostile && pct(r, p.DropPct) {
					return Action{K: "drop", A: it.a, F: r.Intn(4) == 0}
				}
				if nm := w.net[int(it.a)]; nm != nil && (hostile || p.ReadyLagPct > 0) && pct(r, 8+p.ReadyLagPct/4) {
					w.burstNode, w.burstLeft = nm.to, 1+r.Intn(4)
				}
				return Action{K: "deliver", A: it.a, F: hostile && pct(r, p.DupPct)}
			}
			return Action{K: it.k, N: it.n, A: it.a, F: it.f}
		case k < wWork+wTick:
			return Action{K: "tick", N: n.id}
		case k < wWork+wTick+wClient:
			c := r.Intn(wClient)
			switch {
			case c < p.WRead:
				w.seq++
				at := n.id
				if l := w.topLeader(); l != nil && r.Intn(2) == 0 {
					at = l.id
				}
				if prev, ok := w.lastRead[at]; ok && r.Intn(20) == 0 {
					// duplicate request context at the same node
					return Action{K: "read", N: at, D: prev}
				}
				ctx := []byte(fmt.Sprintf("r%d", w.seq))
				w.lastRead[at] = ctx
				return Action{K: "read", N: at, D: ctx}
			case c < p.WRead+p.WPropose:
				at := n
				if l := w.topLeader(); l != nil && r.Intn(3) != 0 {
					at = l
				}
				if r.Intn(8) == 0 {
					var l [][]byte
					for j := 0; j < 2+r.Intn(2); j++ {
						l = append(l, w.payload(r))
					}
					if pct(r, p.CCPct/2) {
						// a batch that mixes a configuration change with normal entries
						cc := w.genCC(r, at)
						if !cc.F {
							pos := r.Intn(len(l) + 1)
							l = append(l[:pos:pos], append([][]byte{cc.D}, l[pos:]...)...)
							return Action{K: "propmix", N: at.id, L: l, A: uint64(pos)}
						}
					}
					return Action{K: "propb", N: at.id, L: l}
				}
				return Action{K: "prop", N: at.id, D: w.payload(r)}
			default:
				if a, ok := w.genMisc(r, n, hostile); ok {
					return a
				}
				continue
			}
		default:
			f := r.Intn(wFault)
			switch {
			case f < p.WCrash:
				if !pct(r, p.CrashPct) {
					continue
				}
				keep := 0
				if len(n.disk.Buf) > 0 {
					keep = r.Intn(len(n.disk.Buf) + 1)
				}
				return Action{K: "crash", N: n.id, A: uint64(keep), F: r.Intn(2) == 0}
			case f < p.WCrash+p.WNet:
				switch r.Intn(6) {
				case 0, 1:
					a, b := w.ids[r.Intn(len(w.ids))], w.ids[r.Intn(len(w.ids))]
					if a == b {
						continue
					}
					return Action{K: "cut", A: a, B: b}
				case 2:
					return Action{K: "isolate", N: n.id}
				case 3:
					return Action{K: "healnet"}
				default:
					if len(w.old) > 0 && pct(r, p.StalePct) {
						return Action{K: "stale", A: uint64(r.Intn(len(w.old)))}
					}
					continue
				}
			default:
				if len(w.old) > 0 && pct(r, p.StalePct) {
					return Action{K: "stale", A: uint64(r.Intn(len(w.old)))}
				}
				continue
			}
		}
	}
	return Action{K: "tick", N: ups[0].id}
}

func (w *World) payload(r *rand.Rand) []byte {
	w.seq++
	d := []byte(fmt.Sprintf("p%dk%d", w.seq, r.Intn(3)))
	pad := r.Intn(4) * r.Intn(8)
	if pct(r, w.Cfg.Prof.BigPct) {
		pad = 20 + r.Intn(300)
		if r.Intn(20) == 0 {
			pad = 1000 + r.Intn(3000)
		}
	}
	for ; pad > 0; pad-- {
		d = append(d, '.')
	}
	return d
}

// anyID: an id of the universe, or (rarely) one that no node has
func (w *World) anyID(r *rand.Rand) uint64 {
	if k := r.Intn(len(w.Cfg.IDs) + 1); k < len(w.Cfg.IDs) {
		return w.Cfg.IDs[k]
	}
	return w.Cfg.IDs[len(w.Cfg.IDs)-1] + 1
}

func (w *World) genMisc(r *rand.Rand, n *node, hostile bool) (Action, bool) {
	p := &w.Cfg.Prof
	switch r.Intn(11) {
	case 0:
		if pct(r, p.CampaignPct) {
			return Action{K: "campaign", N: n.id}, true
		}
	case 1, 5:
		if k5 := r.Intn(3); pct(r, p.CompactPct) && (p.CompactPct == 100 || k5 == 0) {
			lo, hi := w.compactRange(n)
			if hi > lo {
				return Action{K: "compact", N: n.id, A: lo + 1 + uint64(r.Intn(int(hi-lo)))}, true
			}
		}
	case 2, 6:
		if len(n.snapReports) > 0 {
			fail := r.Intn(3) == 0
			if p.CompactPct == 100 {
				fail = r.Intn(2) == 0
			}
			return Action{K: "repsnapq", N: n.id, F: fail}, true
		}
		if r.Intn(2) == 0 {
			return Action{K: "unreach", N: n.id, A: w.anyID(r)}, true
		}
	case 3, 8:
		if pct(r, p.CCPct) {
			return w.genCC(r, n), true
		}
	case 4:
		if pct(r, p.TransferPct) {
			return Action{K: "xfer", N: n.id, A: w.ids[r.Intn(len(w.ids))]}, true
		}
	case 10:
		if r.Intn(3) == 0 {
			return Action{K: "forget", N: n.id}, true
		}
	case 11:
	case 7:
		if r.Intn(3) == 0 {
			return Action{K: "repsnap", N: n.id, A: w.anyID(r), F: r.Intn(2) == 0}, true
		}
	case 9:
		// retire ids that left the committed configuration
		for _, id := range w.ids {
			o := w.nodes[id]
			if o.up() && w.retirable(o) && r.Intn(2) == 0 {
				return Action{K: "stop", N: id}, true
			}
		}
	}
	return Action{}, false
}

func (w *World) genCC(r *rand.Rand, n *node) Action {
	w.seq++
	ctx := []byte(fmt.Sprintf("cc%d", w.seq))
	U := w.Cfg.Universe
	pick := func() uint64 {
		if r.Intn(25) == 0 {
			return 0
		}
		return w.Cfg.IDs[r.Intn(U)]
	}
	types := []pb.ConfChangeType{pb.ConfChangeAddNode, pb.ConfChangeRemoveNode, pb.ConfChangeAddLearnerNode, pb.ConfChangeAddNode, pb.ConfChangeRemoveNode, pb.ConfChangeUpdateNode}
	if r.Intn(5) == 0 {
		// v1 single change
		t := types[r.Intn(5)]
		c := &pb.ConfChange{Type: t.Enum(), NodeId: new(pick()), Context: ctx}
		b, err := proto.Marshal(c)
		must(err)
		return Action{K: "propcc", N: n.id, D: b, F: true}
	}
	cc := &pb.ConfChangeV2{Context: ctx}
	if r.Intn(6) != 0 {
		k := 1 + r.Intn(2)
		if r.Intn(4) == 0 {
			k = 3
		}
		for j := 0; j < k; j++ {
			cc.Changes = append(cc.Changes, &pb.ConfChangeSingle{Type: types[r.Intn(len(types))].Enum(), NodeId: new(pick())})
		}
		if r.Intn(10) == 0 && len(cc.Changes) > 0 {
			cc.Changes = append(cc.Changes, cc.Changes[0]) // duplicate
		}
		cc.Transition = []pb.ConfChangeTransition{pb.ConfChangeTransition_ConfChangeTransitionAuto, pb.ConfChangeTransition_ConfChangeTransitionAuto, pb.ConfChangeTransition_ConfChangeTransitionJointImplicit, pb.ConfChangeTransition_ConfChangeTransitionJointExplicit}[r.Intn(4)].Enum()
	}
	b, err := proto.Marshal(cc)
	must(err)
	return Action{K: "propcc", N: n.id, D: b}
}

// latestCommittedConf returns the configuration after the highest applied
// configuration index known to any node, with that index.
func (w *World) latestCommittedConf() (uint64, map[uint64]bool, bool) {
	var best uint64
	var mem map[uint64]bool
	found := false
	for _, id := range w.ids {
		d := w.nodes[id].disk
		for k, v := range d.MConfAt {
			if !found || k > best {
				best, mem, found = k, v.Members(), true
			}
		}
	}
	return best, mem, found
}

// retirable: n is outside the latest committed configuration and (unless the
// world retires eagerly) every member of that configuration has applied it.
func (w *World) retirable(n *node) bool {
	idx, mem, ok := w.latestCommittedConf()
	if !ok || mem[n.id] {
		return false
	}
	if w.Cfg.EagerRetire {
		return true
	}
	ids := make([]uint64, 0, len(mem))
	for id := range mem {
		ids = append(ids, id)
	}
	sort.Slice(ids, func(i, j int) bool { return ids[i] < ids[j] })
	for _, id := range ids {
		o := w.nodes[id]
		if o == nil {
			return false
		}
		if o.up() {
			if o.appIndex < idx {
				return false
			}
		} else if o.disk.CStar < idx {
			return false
		}
	}
	return true
}

var _ = raft.None
