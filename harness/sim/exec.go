package sim

import (
	"bytes"
	"fmt"
	"os"
	"runtime/debug"
	"sort"
	"strings"

	"go.etcd.io/raft/v3"
	pb "go.etcd.io/raft/v3/raftpb"
	"google.golang.org/protobuf/proto"

	"verif/model"
)

// guard runs f and converts a panic escaping the library into a C14 violation.
func (w *World) guard(n *node, kind string, f func()) (ok bool) {
	defer func() {
		if r := recover(); r != nil {
			s := fmt.Sprint(r)
			if strings.HasPrefix(s, "harness:") {
				panic(r)
			}
			st := string(debug.Stack())
			if i := strings.Index(st, "panic("); i >= 0 {
				st = st[i:]
			}
			if len(st) > 1800 {
				st = st[:1800]
			}
			w.mon.lastPanic = s
			also := panicAlso(s)
			if strings.Contains(s, "ConfStates not equivalent") {
				// raft's check that the configuration it rebuilt equals the ConfState it was given
				if strings.Contains(st, ".restore(") {
					also = []string{"C09", "C10"} // while installing a snapshot
				} else {
					also = []string{"C10", "C13"} // at start-up
				}
			}
			w.violate("C14", also, "panic in %s at node %d: %v\n%s", kind, n.id, s, st)
			n.rn = nil
			ok = false
		}
	}()
	f()
	return true
}

// panicAlso maps raft's own safety assertions to the properties they guard.
func panicAlso(s string) []string {
	switch {
	case strings.Contains(s, "conflict with committed entry"), strings.Contains(s, "is out of range [committed("):
		return []string{"C01", "C04", "C03"}
	case strings.Contains(s, "tocommit("):
		return []string{"C06"}
	case strings.Contains(s, "state.commit"):
		return []string{"C05", "C07"}
	case strings.Contains(s, "applied(") && strings.Contains(s, "is out of range"):
		return []string{"C08"}
	case strings.Contains(s, "applying("), strings.Contains(s, "applying entry size"):
		return []string{"C08", "C16"}
	case strings.Contains(s, "config is already joint"), strings.Contains(s, "can't leave a non-joint config"),
		strings.Contains(s, "can't apply simple config change in joint config"), strings.Contains(s, "removed all voters"),
		strings.Contains(s, "more than one voter changed"):
		return []string{"C10"}
	case strings.Contains(s, "cannot add into a Full inflights"), strings.Contains(s, "sending append in unhandled state"):
		return []string{"C16"}
	case strings.Contains(s, "slice[") || strings.Contains(s, "unstable.slice[") || strings.Contains(s, "is unavailable from storage") || strings.Contains(s, "missing log entry"):
		return []string{"C18", "C03"}
	case strings.Contains(s, "invalid transition"):
		return []string{"C02"}
	}
	return nil
}

func (w *World) refreshTimeout(n *node, st *raft.VerifState) {
	if st.Role != n.lastRole || st.Term != n.lastTerm {
		n.epoch++
		n.lastRole, n.lastTerm = st.Role, st.Term
	}
	h := uint64(w.Cfg.Seed)*0x9E3779B97F4A7C15 + n.id*1000003 + uint64(n.inc)*7919 + uint64(n.epoch)*104729
	h ^= h >> 29
	h *= 0xBF58476D1CE4E5B9
	h ^= h >> 32
	e := w.Cfg.ElectionTick
	n.rn.VerifSetRandomizedElectionTimeout(e + int(h%uint64(e)))
}

// initDump establishes the shadow state right after a (re)start.
func (w *World) initDump(n *node) {
	st := n.rn.VerifState()
	n.lastRole, n.lastTerm = st.Role, st.Term
	n.shadowBase, n.shadowBaseChain, n.shadowBaseOK = st.FirstIndex-1, 0, false
	if c, ok := n.disk.chainAt(st.FirstIndex - 1); ok {
		n.shadowBaseChain, n.shadowBaseOK = c, true
	}
	n.shadow = nil
	n.st = st
	// Bootstrap (legacy) may have queued nothing in the outboxes; keep in sync
	n.outNow = make([]msgMeta, st.NMsgs)
	n.outAfter = make([]msgMeta, st.NMsgsAfter)
	w.refreshShadow(n, &st, nil, "start")
	if !n.up() {
		return
	}
	w.refreshTimeout(n, &st)
	w.onStart(n, &st)
}

// call wraps every call into a RawNode with pre/post dumps and runs the
// monitors. in is the message being stepped (nil for local API calls).
func (w *World) call(n *node, kind string, in *pb.Message, f func()) bool {
	if !n.up() {
		return false
	}
	pre := n.st
	w.clock++
	if !w.guard(n, kind, f) {
		return false
	}
	if !n.up() {
		return false
	}
	post := n.rn.VerifState()
	w.checkHeldMessages(n, kind)
	var created []*pb.Message
	if kind == "ready" {
		n.outNow, n.outAfter = n.outNow[:0], n.outAfter[:0]
		if post.NMsgs != 0 || post.NMsgsAfter != 0 {
			w.inconclusive("outbox not drained by Ready at node %d", n.id)
		}
	} else if post.NMsgs != len(n.outNow) || post.NMsgsAfter != len(n.outAfter) {
		if post.NMsgs < len(n.outNow) || post.NMsgsAfter < len(n.outAfter) {
			w.violate("C20", []string{"C14"}, "node %d: pending outbound messages disappeared without a Ready (%d->%d, %d->%d) in %s", n.id, len(n.outNow), post.NMsgs, len(n.outAfter), post.NMsgsAfter, kind)
			n.outNow = n.outNow[:min(len(n.outNow), post.NMsgs)]
			n.outAfter = n.outAfter[:min(len(n.outAfter), post.NMsgsAfter)]
		}
		now, aft := n.rn.VerifOutbox()
		for _, m := range now[len(n.outNow):] {
			created = append(created, m)
			n.outNow = append(n.outNow, w.metaFor(n, m, &post))
		}
		for _, m := range aft[len(n.outAfter):] {
			created = append(created, m)
			n.outAfter = append(n.outAfter, w.metaFor(n, m, &post))
		}
	}
	w.refreshShadow(n, &post, in, kind)
	if !n.up() {
		return false
	}
	w.monitors(n, kind, in, &pre, &post, created)
	w.refreshTimeout(n, &post)
	n.st = post
	if selfCheck {
		d := n.disk
		for i := max(d.SnapIndex, n.shadowBase); i <= min(d.lastIndex(), n.shadowBase+uint64(len(n.shadow))); i++ {
			dc, ok1 := d.chainAt(i)
			sc, ok2 := n.shadowChain(i)
			dt, _ := d.termAt(i)
			var stt uint64
			if e, ok := n.shadowAt(i); ok {
				stt = e.Term
			} else {
				stt = post.BaseTerm
			}
			if ok1 && ok2 && dt == stt && dc != sc {
				panic(fmt.Sprintf("harness: selfcheck node %d idx %d term %d: disk chain %x shadow chain %x (kind %s, shadowBase %d ok=%v, disk snap %d)", n.id, i, dt, dc, sc, kind, n.shadowBase, n.shadowBaseOK, d.SnapIndex))
			}
		}
	}
	return true
}

var selfCheck = os.Getenv("RV_SELFCHECK") != ""

func (w *World) metaFor(n *node, m *pb.Message, post *raft.VerifState) msgMeta {
	mm := msgMeta{createStep: w.clock, cause: w.curCause, typ: m.GetType(), to: m.GetTo(), term: m.GetTerm(), index: m.GetIndex(), reject: m.GetReject(), inc: n.inc}
	return mm
}

// refreshShadow re-reads the node's logical log, checks invariant I2 (entries
// change only when a leader's append or snapshot is delivered), log shape, and
// the global log-matching map (C03), and scans new entries for C20.
func (w *World) refreshShadow(n *node, post *raft.VerifState, in *pb.Message, kind string) {
	// reading [firstIndex, lastIndex] of the node's own log is what raft itself does
	// when it builds the next append; if that read trips one of raft's assertions
	// (the stable and unstable parts no longer fit together) it is reported like a
	// panic in any other call and the node counts as crashed
	var ents []raft.VerifEntry
	if !w.guard(n, "read of the logical log after "+kind, func() { ents = n.rn.VerifEntries(post.FirstIndex, post.LastIndex) }) {
		w.violate("C18", []string{"C03"}, "node %d: the logical log (%d,%d] cannot be read after %s", n.id, post.FirstIndex-1, post.LastIndex, kind)
		return
	}
	newBase := post.FirstIndex - 1
	if uint64(len(ents)) != post.LastIndex-newBase {
		w.violate("C18", []string{"C03"}, "node %d: log view returned %d entries for (%d,%d]", n.id, len(ents), newBase, post.LastIndex)
		return
	}
	mayRewrite := in != nil && (in.GetType() == pb.MsgApp || in.GetType() == pb.MsgSnap)
	// base chain
	var baseChain uint64
	baseOK := false
	restored := false
	if in != nil && in.GetType() == pb.MsgSnap && in.GetSnapshot().GetMetadata().GetIndex() == newBase && newBase != n.shadowBase {
		// a snapshot was installed in this call unless its point was already in the log
		if t, ok := n.shadowTermAt(newBase); !ok || t != in.GetSnapshot().GetMetadata().GetTerm() {
			restored = true
		}
	}
	if restored {
		if _, c, ok := parseSnapData(in.GetSnapshot().GetData()); ok {
			baseChain, baseOK = c, true
		}
	} else if c, ok := n.shadowChain(newBase); ok {
		baseChain, baseOK = c, true
	} else if c, ok := n.disk.chainAt(newBase); ok {
		baseChain, baseOK = c, true
	}
	oldTop := n.shadowBase + uint64(len(n.shadow))
	if kind != "start" && !mayRewrite {
		if post.LastIndex < oldTop && newBase <= oldTop {
			w.violate("C03", []string{"C18", "C01"}, "I2: node %d log shrank %d->%d in %s", n.id, oldTop, post.LastIndex, kind)
		}
	}
	if kind != "start" && !mayRewrite && post.LastIndex > oldTop && oldTop >= newBase &&
		n.st.Role != raft.StateLeader && post.Role != raft.StateLeader {
		// only a leader appends on its own; everybody else's log grows through MsgApp
		// (or is replaced by MsgSnap) and through nothing else - in particular not when
		// a storage write is acknowledged or a Ready is advanced
		also := []string{"C18"}
		if n.snapOutstanding || (in != nil && in.GetSnapshot() != nil) {
			also = append(also, "C09")
		}
		w.violate("C03", also, "I2: node %d (not leader) log grew %d->%d in %s without an append being delivered", n.id, oldTop, post.LastIndex, kind)
	}
	ns := make([]sEnt, len(ents))
	prev := baseChain
	prevTerm := post.BaseTerm
	same := baseOK
	for i, e := range ents {
		idx := newBase + 1 + uint64(i)
		if e.Index != idx {
			w.violate("C03", []string{"C18"}, "node %d: log not contiguous: position %d holds index %d", n.id, idx, e.Index)
			return
		}
		if e.Term < prevTerm {
			w.violate("C03", nil, "node %d: term decreases in log at index %d: %d after %d (%s)", n.id, idx, e.Term, prevTerm, kind)
		}
		prevTerm = e.Term
		var old *sEnt
		if idx > n.shadowBase && idx <= oldTop {
			old = &n.shadow[idx-n.shadowBase-1]
		}
		changed := old == nil || old.Term != e.Term || old.Type != e.Type || !bytes.Equal(old.Data, e.Data)
		if old != nil && changed && kind != "start" {
			if !mayRewrite {
				w.violate("C03", []string{"C18", "C01", "C20"}, "I2: node %d entry %d changed (term %d %q)->(term %d %q) in %s", n.id, idx, old.Term, trunc(old.Data), e.Term, trunc(e.Data), kind)
			} else {
				w.Stats["entries-overwritten"]++
				if idx >= n.st.UnstableOffset && idx < n.st.OffsetInProgress {
					w.Stats["entries-overwritten-while-being-persisted"]++
					if idx > n.st.UnstableOffset && post.LastIndex > idx && (old == nil || idx == n.shadowBase+1 || n.shadow[idx-n.shadowBase-2].Term == ns[i-1].Term) {
						w.Stats["inflight-tail-replaced-by-2-or-more"]++
					}
				}
				if idx <= n.st.Commit {
					w.violate("C01", []string{"C04", "C03", "C06"}, "node %d: committed entry %d (commit %d) replaced on %s", n.id, idx, n.st.Commit, in.GetType())
				}
			}
		}
		if changed || !same || old == nil {
			same = false
			c := chainStep(prev, e.Term, e.Type, e.Data)
			ns[i] = sEnt{Index: idx, Term: e.Term, Type: e.Type, Data: e.Data, Chain: c}
			if baseOK {
				w.checkEntry(n, &ns[i], kind)
			}
			if old == nil || changed {
				w.checkNewEntry(n, &ns[i], post, kind)
			}
		} else {
			ns[i] = *old
		}
		prev = ns[i].Chain
	}
	if mayRewrite && post.LastIndex < oldTop && post.FirstIndex <= oldTop {
		w.Stats["truncations"]++
		w.sample("C03", func() any {
			return map[string]any{"node": n.id, "on": in.GetType().String(), "from_leader": in.GetFrom(), "leader_term": in.GetTerm(), "log_end_before": oldTop, "log_end_after": post.LastIndex, "commit": post.Commit}
		})
	}
	n.prevShadow, n.prevShadowBase = n.shadow, n.shadowBase
	n.shadow, n.shadowBase, n.shadowBaseChain, n.shadowBaseOK = ns, newBase, baseChain, baseOK
	if !baseOK {
		w.Stats["shadow-base-unknown"]++
	}
}

func (n *node) shadowTermAt(i uint64) (uint64, bool) {
	if i == n.shadowBase {
		return n.st.BaseTerm, true
	}
	if e, ok := n.shadowAt(i); ok {
		return e.Term, true
	}
	return 0, false
}

func trunc(b []byte) string {
	if len(b) > 24 {
		return string(b[:24]) + "..."
	}
	return string(b)
}

// ---- network ----

func (w *World) enqueue(n *node, m *pb.Message, meta msgMeta) {
	b, err := proto.Marshal(m)
	if err != nil {
		panic("harness: marshal: " + err.Error())
	}
	nm := &netMsg{id: w.nextMsg, from: n.id, to: m.GetTo(), fromInc: n.inc, data: b, typ: m.GetType(), term: m.GetTerm(), meta: meta, sendStep: w.step}
	w.nextMsg++
	w.net[nm.id] = nm
	w.order = append(w.order, nm.id)
	w.sentLog[nm.id] = meta
	w.Stats["msgs-sent"]++
}

func (w *World) removeMsg(id int) {
	delete(w.net, id)
	for i, x := range w.order {
		if x == id {
			w.order = append(w.order[:i], w.order[i+1:]...)
			return
		}
	}
}

// sendWire hands a message to the network: wire monitors first, then the
// message is marshalled (so that nothing aliases raft's state).
func (w *World) sendWire(n *node, m *pb.Message, meta msgMeta) {
	if meta.typ != m.GetType() || meta.to != m.GetTo() {
		w.inconclusive("metadata mismatch for %s to %d at node %d (meta %s to %d)", m.GetType(), m.GetTo(), n.id, meta.typ, meta.to)
		meta = msgMeta{createStep: w.clock, typ: m.GetType(), to: m.GetTo(), term: m.GetTerm(), index: m.GetIndex(), reject: m.GetReject(), inc: n.inc}
	}
	w.wireMon(n, m, &meta)
	if m.GetType() == pb.MsgSnap {
		n.snapReports = append(n.snapReports, m.GetTo())
		w.Stats["msgsnap-sent"]++
	}
	w.enqueue(n, m, meta)
}

func (w *World) deliver(id int, keep bool, stale bool) {
	var nm *netMsg
	if stale {
		if id < 0 || id >= len(w.old) {
			return
		}
		nm = w.old[id]
	} else {
		nm = w.net[id]
		if nm == nil {
			return
		}
		if !keep {
			w.removeMsg(id)
		} else {
			w.Stats["duplicated"]++
		}
	}
	t := w.nodes[nm.to]
	if t == nil || !t.up() {
		w.Stats["lost-to-down-node"]++
		return
	}
	if w.cut[[2]uint64{nm.from, nm.to}] {
		w.Stats["cut-drops"]++
		return
	}
	msg := &pb.Message{}
	if err := proto.Unmarshal(nm.data, msg); err != nil {
		panic("harness: unmarshal: " + err.Error())
	}
	if !stale {
		if len(w.old) < 256 {
			w.old = append(w.old, nm)
		} else {
			w.old[(nm.id*7919)%256] = nm
		}
	} else {
		w.Stats["stale-replays"]++
	}
	w.logf("deliver #%d %s", nm.id, raft.DescribeMessage(msg, nil))
	w.Stats["delivered"]++
	w.preDeliver(t, msg, nm)
	w.curCause = nm.id
	var err error
	w.call(t, "step", msg, func() { err = t.rn.Step(msg) })
	w.curCause = 0
	_ = err
}

// ---- persistence ----

func (w *World) afterDiskWrite(n *node) {
	d := n.disk
	if d.HasHS && d.Vote != 0 {
		k := [2]uint64{n.id, d.Term}
		if old, ok := w.mon.durVote[k]; ok && old != d.Vote {
			w.violate("C02", []string{"C07", "C05"}, "node %d durable vote in term %d changed %d -> %d", n.id, d.Term, old, d.Vote)
		}
		w.mon.durVote[k] = d.Vote
	}
}

// noteWrittenVote: one vote per term over the node's whole life (C07). Every
// hard state the application wrote - synced or, where raft said MustSync=false,
// not - counts as persisted from the contract's point of view: raft must never
// have two different votes written for one term, in any incarnation.
func (w *World) noteWrittenVote(n *node, hs *pb.HardState, sync bool) {
	if hs.GetVote() == 0 {
		return
	}
	k := [2]uint64{n.id, hs.GetTerm()}
	if old, ok := w.mon.writtenVote[k]; ok && old != hs.GetVote() {
		w.violate("C07", []string{"C02", "C05"}, "node %d wrote hard states with two different votes for term %d: %d and then %d (incarnation %d, synced=%v)", n.id, hs.GetTerm(), old, hs.GetVote(), n.inc, sync)
	}
	w.mon.writtenVote[k] = hs.GetVote()
}

func (w *World) persistEntries(n *node, ents []*pb.Entry, sync bool) {
	if len(ents) == 0 {
		return
	}
	w.logf("disk %d append [%d..%d] term %d sync=%v", n.id, ents[0].GetIndex(), ents[len(ents)-1].GetIndex(), ents[len(ents)-1].GetTerm(), sync)
	for i, e := range ents {
		if i > 0 && e.GetIndex() != ents[i-1].GetIndex()+1 {
			w.violate("C03", []string{"C18"}, "node %d was handed non-contiguous entries to persist: %d after %d", n.id, e.GetIndex(), ents[i-1].GetIndex())
			return
		}
	}
	li, _ := n.ms.LastIndex()
	if ents[0].GetIndex() > li+1 {
		w.violate("C18", []string{"C03", "C14"}, "node %d was handed entries starting at %d to persist but its stable log ends at %d (gap)", n.id, ents[0].GetIndex(), li)
		return
	}
	w.guard(n, "storage-append", func() { must(n.ms.Append(cloneEnts(ents))) })
	n.disk.write(ents, nil, sync)
	if !sync {
		w.Stats["unsynced-entry-writes"]++
	}
	w.afterDiskWrite(n)
}

func (w *World) persistHS(n *node, hs *pb.HardState, sync bool) {
	if hs == nil || raft.IsEmptyHardState(hs) {
		if sync {
			n.disk.write(nil, nil, true)
			w.afterDiskWrite(n)
		}
		return
	}
	if !sync && hs.GetVote() != 0 {
		if prev, _, _ := n.ms.InitialState(); prev.GetTerm() != hs.GetTerm() || prev.GetVote() != hs.GetVote() {
			w.violate("C05", []string{"C07", "C02"}, "node %d: a hard state with a new vote (term %d vote %d, previously term %d vote %d) was handed out without durability being required (async=%v)", n.id, hs.GetTerm(), hs.GetVote(), prev.GetTerm(), prev.GetVote(), n.cfg.Async)
		}
	}
	must(n.ms.SetHardState(proto.Clone(hs).(*pb.HardState)))
	n.disk.write(nil, hs, sync)
	if !sync {
		w.Stats["unsynced-hs-writes"]++
	}
	w.noteWrittenVote(n, hs, sync)
	w.afterDiskWrite(n)
}

// persistSnapshot writes snapshot, entries and hard state as one atomic,
// synced write and installs the snapshot in the application.
func (w *World) persistSnapshot(n *node, snap *pb.Snapshot, ents []*pb.Entry, hs *pb.HardState) {
	md := snap.GetMetadata()
	idx, term := md.GetIndex(), md.GetTerm()
	state, chain, ok := parseSnapData(snap.GetData())
	if !ok {
		w.violate("C09", []string{"C01"}, "node %d was handed a snapshot at %d whose data no application produced (%d bytes)", n.id, idx, len(snap.GetData()))
		return
	}
	w.onSnapshotInstall(n, snap, state, chain)
	w.guard(n, "storage-applysnapshot", func() { must(n.ms.ApplySnapshot(proto.Clone(snap).(*pb.Snapshot))) })
	if !n.up() {
		return
	}
	if len(ents) > 0 {
		w.guard(n, "storage-append", func() { must(n.ms.Append(cloneEnts(ents))) })
	}
	cs := md.GetConfState()
	if cs == nil {
		cs = &pb.ConfState{}
	}
	n.disk.installSnapshot(idx, term, chain, state, cs)
	n.disk.appendSynced(ents)
	if hs != nil && !raft.IsEmptyHardState(hs) {
		must(n.ms.SetHardState(proto.Clone(hs).(*pb.HardState)))
		n.disk.setHSSynced(hs)
		w.noteWrittenVote(n, hs, true)
	}
	w.afterDiskWrite(n)
	// application installs the snapshot
	n.appIndex, n.appState = idx, state
	n.mconf = confOf(cs)
	d := n.disk
	d.ConfAt[idx] = proto.Clone(cs).(*pb.ConfState)
	d.MConfAt[idx] = n.mconf.Clone()
	d.StateAt[idx] = state
	d.DurApplied = max(d.DurApplied, idx)
	d.CStar = max(d.CStar, idx)
	d.MaxConfIdx = max(d.MaxConfIdx, idx)
	n.confRegressed = false
	w.Stats["snap-installed"]++
	w.logf("node %d installed snapshot (%d,%d) conf=%s", n.id, idx, term, n.mconf)
	for _, id := range sortedMembers(n.mconf) {
		w.ensureNode(id)
	}
}

// ---- application ----

type handedCS struct {
	orig *pb.ConfState
	copy *pb.ConfState
	idx  uint64
}

// checkHandedConfStates: a ConfState returned by ApplyConfChange is the
// application's to keep (it stores it with its snapshots); it must not change
// when the configuration changes later.
func (w *World) checkHandedConfStates(n *node) {
	for _, h := range n.handedCS {
		if !proto.Equal(h.orig, h.copy) {
			w.violate("C13", []string{"C10"}, "node %d: the ConfState returned by ApplyConfChange at index %d was %s when handed out and reads %s now", n.id, h.idx, confOf(h.copy), confOf(h.orig))
			n.handedCS = nil
			return
		}
	}
}

func sortedMembers(c model.Conf) []uint64 {
	m := c.Members()
	ids := make([]uint64, 0, len(m))
	for id := range m {
		ids = append(ids, id)
	}
	sort.Slice(ids, func(i, j int) bool { return ids[i] < ids[j] })
	return ids
}

func decodeCC(e *pb.Entry) (*pb.ConfChangeV2, pb.ConfChangeI, bool) {
	switch e.GetType() {
	case pb.EntryConfChange:
		c1 := &pb.ConfChange{}
		if err := proto.Unmarshal(e.GetData(), c1); err != nil {
			return nil, nil, false
		}
		return c1.AsV2(), c1, true
	case pb.EntryConfChangeV2:
		c2 := &pb.ConfChangeV2{}
		if err := proto.Unmarshal(e.GetData(), c2); err != nil {
			return nil, nil, false
		}
		return c2, c2, true
	}
	return nil, nil, false
}

func toModelChange(cc *pb.ConfChangeV2) model.Change {
	ch := model.Change{Transition: int(cc.GetTransition())}
	for _, c := range cc.GetChanges() {
		ch.Changes = append(ch.Changes, model.Single{Type: int(c.GetType()), ID: c.GetNodeId()})
	}
	return ch
}

// applyEntries is the application consuming one batch of committed entries.
func (w *World) applyEntries(n *node, ents []*pb.Entry) {
	if len(ents) == 0 || !n.up() {
		return
	}
	w.onApplyBatch(n, ents)
	for _, e := range ents {
		if !n.up() || w.failed() {
			return
		}
		idx := e.GetIndex()
		w.clock++
		if idx <= n.appIndex {
			// already covered by a snapshot the application installed after
			// this batch was handed out
			w.Stats["apply-skipped-covered-by-snapshot"]++
			continue
		}
		if idx != n.appIndex+1 {
			w.violate("C08", []string{"C01"}, "node %d application: next entry to apply is %d but its state is at %d", n.id, idx, n.appIndex)
			return
		}
		w.onApplyEntry(n, e)
		d := n.disk
		// (the application's applied index moves only after a configuration
		// entry has been handed to ApplyConfChange: a snapshot taken on demand
		// inside that call must still describe the previous index)
		if isConfType(e.GetType()) {
			cc, cci, ok := decodeCC(e)
			if !ok {
				w.violate("C20", []string{"C10"}, "node %d: committed configuration entry %d does not decode", n.id, idx)
				return
			}
			bootEntry := w.Cfg.Legacy && e.GetTerm() == 1 && idx <= uint64(len(w.Cfg.Voters)) && w.isInitialMember(n.id)
			next, err := n.mconf.Apply(toModelChange(cc))
			if err == nil || bootEntry {
				var cs *pb.ConfState
				if !w.call(n, "applycc", nil, func() { cs = n.rn.ApplyConfChange(cci) }) {
					return
				}
				w.checkHandedConfStates(n)
				n.handedCS = append(n.handedCS, handedCS{cs, proto.Clone(cs).(*pb.ConfState), idx})
				if len(n.handedCS) > 8 {
					n.handedCS = n.handedCS[1:]
				}
				if bootEntry {
					next = confOf(cs)
				}
				n.mconf = next
				d.ConfAt[idx] = proto.Clone(cs).(*pb.ConfState)
				d.MConfAt[idx] = next.Clone()
				d.CStar = max(d.CStar, idx)
				if idx >= d.MaxConfIdx {
					d.MaxConfIdx = idx
					n.confRegressed = false
				}
				w.onConfApplied(n, idx, cs, next, bootEntry)
				w.Stats["confchanges-applied"]++
				for _, id := range sortedMembers(next) {
					w.ensureNode(id)
				}
			} else {
				w.Stats["confchanges-cancelled"]++
				w.logf("node %d cancels conf change at %d: %v", n.id, idx, err)
			}
		}
		n.appState = stateStep(n.appState, idx, e.GetType(), e.GetData())
		n.appIndex = idx
		d.StateAt[idx] = n.appState
		w.mon.noteState(w, n, idx, n.appState)
		d.DurApplied = max(d.DurApplied, idx)
		w.Stats["applied"]++
	}
}

// ---- action execution ----

// Exec executes one action. It is deterministic given the world state.
func (w *World) Exec(a Action) {
	w.Trace = append(w.Trace, a)
	w.clock++
	w.sig = w.sig*1099511628211 ^ uint64(len(a.K))<<8 ^ uint64(a.K[0]) ^ a.N<<16 ^ a.A<<24
	n := w.nodes[a.N]
	switch a.K {
	case "tick":
		if n != nil && n.up() {
			w.logf("tick %d", n.id)
			w.call(n, "tick", nil, func() { n.rn.Tick() })
		}
	case "campaign":
		if n != nil && n.up() {
			w.logf("campaign %d", n.id)
			w.call(n, "campaign", nil, func() { _ = n.rn.Campaign() })
		}
	case "prop":
		if n != nil && n.up() {
			w.doPropose(n, [][]byte{a.D}, false)
		}
	case "propb":
		if n != nil && n.up() {
			w.doPropose(n, a.L, true)
		}
	case "propcc":
		if n != nil && n.up() {
			w.doProposeCC(n, a.D, a.F)
		}
	case "propmix":
		if n != nil && n.up() {
			w.doProposeMix(n, a.L, int(a.A))
		}
	case "read":
		if n != nil && n.up() {
			w.doRead(n, a.D)
		}
	case "xfer":
		if n != nil && n.up() {
			w.logf("transfer %d -> %d", n.id, a.A)
			w.Stats["transfers-requested"]++
			w.call(n, "transfer", nil, func() { n.rn.TransferLeader(a.A) })
		}
	case "forget":
		if n != nil && n.up() {
			w.logf("forgetleader %d", n.id)
			w.call(n, "forget", nil, func() { _ = n.rn.ForgetLeader() })
		}
	case "unreach":
		if n != nil && n.up() {
			w.call(n, "unreachable", nil, func() { n.rn.ReportUnreachable(a.A) })
		}
	case "repsnap":
		if n != nil && n.up() {
			st := raft.SnapshotFinish
			if a.F {
				st = raft.SnapshotFailure
			}
			w.mon.curReportTo = a.A
			w.call(n, "reportsnap", nil, func() { n.rn.ReportSnapshot(a.A, st) })
		}
	case "repsnapq":
		if n != nil && n.up() && len(n.snapReports) > 0 {
			to := n.snapReports[0]
			n.snapReports = n.snapReports[1:]
			st := raft.SnapshotFinish
			if a.F {
				st = raft.SnapshotFailure
			}
			w.logf("reportsnapshot %d->%d fail=%v", n.id, to, a.F)
			w.mon.curReportTo = to
			w.call(n, "reportsnap", nil, func() { n.rn.ReportSnapshot(to, st) })
		}
	case "deliver":
		w.deliver(int(a.A), a.F, false)
	case "stale":
		w.deliver(int(a.A), false, true)
	case "drop":
		if nm := w.net[int(a.A)]; nm != nil {
			w.removeMsg(nm.id)
			w.Stats["dropped"]++
			if a.F {
				if s := w.nodes[nm.from]; s != nil && s.up() {
					w.call(s, "unreachable", nil, func() { s.rn.ReportUnreachable(nm.to) })
				}
			}
		}
	case "cut":
		w.cut[[2]uint64{a.A, a.B}], w.cut[[2]uint64{a.B, a.A}] = true, true
		w.logf("cut %d<->%d", a.A, a.B)
		w.Stats["cuts"]++
	case "isolate":
		for _, o := range w.ids {
			if o != a.N {
				w.cut[[2]uint64{a.N, o}], w.cut[[2]uint64{o, a.N}] = true, true
			}
		}
		w.logf("isolate %d", a.N)
		w.Stats["isolations"]++
	case "healnet":
		w.cut = map[[2]uint64]bool{}
		w.logf("healnet")
	case "ready":
		if n != nil && n.up() && !n.cfg.Async && n.rd == nil && n.rn.HasReady() {
			w.doReadySync(n)
		}
	case "pents":
		if n != nil && n.up() && n.rd != nil && !n.persistedEnt {
			w.doPersistEnts(n)
		}
	case "phs":
		if n != nil && n.up() && n.rd != nil && n.persistedEnt && !n.persistedHS {
			w.persistHS(n, n.rd.HardState, n.rd.MustSync)
			n.persistedHS = true
		}
	case "send":
		if n != nil && n.up() && n.rd != nil && n.persistedHS && !n.sent {
			w.doSendSync(n)
		}
	case "apply":
		if n != nil && n.up() && n.rd != nil && n.persistedHS && !n.applied {
			n.applied = true
			w.checkHandedOut(n, n.rd.CommittedEntries, n.rdCommitted, "committed entries")
			w.applyEntries(n, n.rd.CommittedEntries)
		}
	case "advance":
		if n != nil && n.up() && n.rd != nil && n.sent && n.applied {
			w.doAdvance(n)
		}
	case "aready":
		if n != nil && n.up() && n.cfg.Async && n.rn.HasReady() {
			w.doReadyAsync(n)
		}
	case "appthr":
		if n != nil && n.up() && len(n.appQ) > 0 {
			w.doAppendThread(n, a.F)
		}
	case "aplthr":
		if n != nil && n.up() && len(n.aplQ) > 0 {
			w.doApplyThread(n)
		}
	case "self":
		if n != nil && n.up() {
			w.doSelf(n, a.A)
		}
	case "compact":
		if n != nil && n.up() {
			w.doCompact(n, a.A)
		}
	case "crash":
		if n != nil && n.up() {
			w.crashNode(n, int(a.A), a.F)
		}
	case "restart":
		if n != nil && !n.up() && !n.retired {
			w.start(n, a.A, false)
		}
	case "stop":
		if n != nil && n.up() {
			w.retire(n)
		}
	case "heal":
		w.healSuffix()
	default:
		panic("harness: unknown action " + a.K)
	}
	w.step++
}

func (w *World) retire(n *node) {
	w.logf("retire %d", n.id)
	n.disk.flush(len(n.disk.Buf))
	n.rn, n.ms, n.rd = nil, nil, nil
	n.appQ, n.aplQ, n.selfApp, n.selfApl, n.snapReports, n.aplOrig = nil, nil, nil, nil, nil, nil
	n.outNow, n.outAfter = nil, nil
	n.retired = true
	w.Stats["retired"]++
	w.mon.lastRetireStep = w.step
}

func (w *World) doPropose(n *node, payloads [][]byte, batch bool) {
	var err error
	ents := make([]*pb.Entry, len(payloads))
	bufs := make([][]byte, len(payloads))
	for i, p := range payloads {
		bufs[i] = append([]byte(nil), p...)
		ents[i] = &pb.Entry{Data: bufs[i]}
	}
	w.mon.noteProposal(w, n, payloads, batch)
	w.mon.curPayloads = payloads
	defer func() { w.mon.curPayloads = nil }()
	if batch {
		w.call(n, "propose", nil, func() {
			err = n.rn.Step(&pb.Message{Type: pb.MsgProp.Enum(), From: new(n.id), Entries: ents})
		})
	} else {
		w.call(n, "propose", nil, func() { err = n.rn.Propose(bufs[0]) })
	}
	w.mon.noteProposalResult(w, n, payloads, err)
	w.logf("propose %d %q -> %v", n.id, trunc(payloads[0]), err)
}

// doProposeMix proposes one batch in which element ccPos is a ConfChangeV2 and
// the others are normal entries.
func (w *World) doProposeMix(n *node, elems [][]byte, ccPos int) {
	var err error
	ents := make([]*pb.Entry, len(elems))
	types := make([]pb.EntryType, len(elems))
	var normals [][]byte
	for i, p := range elems {
		if i == ccPos {
			ents[i] = &pb.Entry{Type: pb.EntryConfChangeV2.Enum(), Data: append([]byte(nil), p...)}
			types[i] = pb.EntryConfChangeV2
			cc := &pb.ConfChangeV2{}
			must(proto.Unmarshal(p, cc))
			w.mon.noteCCProposal(w, n, cc)
		} else {
			ents[i] = &pb.Entry{Data: append([]byte(nil), p...)}
			types[i] = pb.EntryNormal
			normals = append(normals, p)
		}
	}
	w.mon.noteProposal(w, n, normals, true)
	w.mon.curPayloads, w.mon.curTypes = elems, types
	w.call(n, "propose", nil, func() {
		err = n.rn.Step(&pb.Message{Type: pb.MsgProp.Enum(), From: new(n.id), Entries: ents})
	})
	w.mon.curPayloads, w.mon.curTypes = nil, nil
	w.mon.noteProposalResult(w, n, normals, err)
	w.Stats["mixed-batches-proposed"]++
	w.logf("propose-mix %d %d elements (conf change at %d) -> %v", n.id, len(elems), ccPos, err)
}

func (w *World) doProposeCC(n *node, data []byte, v1 bool) {
	var cci pb.ConfChangeI
	if v1 {
		c := &pb.ConfChange{}
		must(proto.Unmarshal(data, c))
		cci = c
	} else {
		c := &pb.ConfChangeV2{}
		must(proto.Unmarshal(data, c))
		cci = c
	}
	var err error
	w.mon.noteCCProposal(w, n, cci)
	typ, ccdata, merr := pb.MarshalConfChange(cci)
	must(merr)
	w.mon.curCC, w.mon.curCCType = ccdata, typ
	w.call(n, "proposecc", nil, func() { err = n.rn.ProposeConfChange(cci) })
	w.mon.curCC = nil
	w.mon.noteCCResult(w, n, cci, err)
	w.Stats["cc-proposed"]++
	w.logf("proposecc %d %s -> %v", n.id, raft.DescribeConfChange(cci), err)
}

func (w *World) doRead(n *node, ctx []byte) {
	w.mon.noteReadIssued(w, n, ctx)
	w.logf("readindex %d %s", n.id, ctx)
	w.mon.curRead = ctx
	w.call(n, "readindex", nil, func() { n.rn.ReadIndex(append([]byte(nil), ctx...)) })
	w.mon.curRead = nil
	w.Stats["reads-issued"]++
}

func (w *World) doReadySync(n *node) {
	var rd raft.Ready
	metas := append(append([]msgMeta{}, n.outNow...), n.outAfter...)
	if !w.call(n, "ready", nil, func() { rd = n.rn.Ready() }) {
		return
	}
	w.logf("ready(sync) %d: %d ents, %d committed, %d msgs, snap=%v hs=%v", n.id, len(rd.Entries), len(rd.CommittedEntries), len(rd.Messages), !raft.IsEmptySnap(rd.Snapshot), rd.HardState)
	n.rd = &rd
	n.rdEnts, n.rdCommitted = cloneEnts(rd.Entries), cloneEnts(rd.CommittedEntries)
	n.persistedEnt, n.persistedHS, n.sent, n.applied = false, false, false, false
	// map metas: msgs in order, then the non-self part of msgsAfterAppend
	var out []msgMeta
	for _, mm := range metas {
		if mm.to == n.id {
			continue
		}
		out = append(out, mm)
	}
	n.rdMetas = out
	if len(out) != len(rd.Messages) {
		w.inconclusive("sync Ready at node %d carries %d messages, %d tracked", n.id, len(rd.Messages), len(out))
		n.rdMetas = nil
	}
	w.holdMessages(n, rd.Messages)
	w.onReady(n, &rd, rd.HardState, rd.Entries, rd.Snapshot, rd.CommittedEntries)
	w.Stats["readys-sync"]++
}

// checkHandedOut: entries that raft handed to the application (to persist or
// to apply) belong to the application until it is done with them; raft must
// not change them afterwards.
func (w *World) checkHandedOut(n *node, now, orig []*pb.Entry, what string) bool {
	if len(now) != len(orig) {
		w.violate("C03", []string{"C18", "C01"}, "node %d: the %s handed out by raft changed length %d -> %d before the application used them", n.id, what, len(orig), len(now))
		return false
	}
	for i := range now {
		if !proto.Equal(now[i], orig[i]) {
			w.violate("C03", []string{"C18", "C01", "C08"}, "node %d: entry %d of the %s handed out by raft was (index %d, term %d, %q) and reads (index %d, term %d, %q) when the application uses it", n.id, i, what, orig[i].GetIndex(), orig[i].GetTerm(), trunc(orig[i].GetData()), now[i].GetIndex(), now[i].GetTerm(), trunc(now[i].GetData()))
			return false
		}
	}
	return true
}

func (w *World) doPersistEnts(n *node) {
	rd := n.rd
	w.checkHandedOut(n, rd.Entries, n.rdEnts, "entries to persist")
	if !raft.IsEmptySnap(rd.Snapshot) {
		w.persistSnapshot(n, rd.Snapshot, rd.Entries, rd.HardState)
		n.persistedEnt, n.persistedHS = true, true
		return
	}
	w.persistEntries(n, rd.Entries, rd.MustSync)
	n.persistedEnt = true
}

func (w *World) doSendSync(n *node) {
	n.sent = true
	for i, m := range n.rd.Messages {
		var meta msgMeta
		if n.rdMetas != nil {
			meta = n.rdMetas[i]
		} else {
			meta = msgMeta{createStep: w.clock, typ: m.GetType(), to: m.GetTo(), term: m.GetTerm(), index: m.GetIndex(), reject: m.GetReject(), inc: n.inc}
		}
		w.sendWire(n, m, meta)
	}
}

func (w *World) doAdvance(n *node) {
	rd := n.rd
	w.logf("advance %d", n.id)
	w.mon.advancing = rd
	w.call(n, "advance", nil, func() { n.rn.Advance(*rd) })
	w.mon.advancing = nil
	if !raft.IsEmptySnap(rd.Snapshot) {
		n.snapOutstanding = false
	}
	n.rd, n.rdMetas = nil, nil
}

func (w *World) doReadyAsync(n *node) {
	var rd raft.Ready
	nowMetas := append([]msgMeta{}, n.outNow...)
	afterMetas := append([]msgMeta{}, n.outAfter...)
	if !w.call(n, "ready", nil, func() { rd = n.rn.Ready() }) {
		return
	}
	w.logf("ready(async) %d: %d msgs", n.id, len(rd.Messages))
	w.holdMessages(n, rd.Messages)
	w.Stats["readys-async"]++
	var hs *pb.HardState
	var ents []*pb.Entry
	var snap *pb.Snapshot
	var committed []*pb.Entry
	for _, m := range rd.Messages {
		switch m.GetTo() {
		case raft.LocalAppendThread:
			hs, ents, snap = hsOf(m), m.GetEntries(), m.GetSnapshot()
		case raft.LocalApplyThread:
			committed = m.GetEntries()
		}
	}
	w.onReady(n, &rd, hs, ents, snap, committed)
	k := 0
	for _, m := range rd.Messages {
		switch m.GetTo() {
		case raft.LocalAppendThread:
			aw := &appendWork{msg: m, orig: cloneEnts(m.GetEntries())}
			resp := m.GetResponses()
			for i, r := range resp {
				if r.GetType() == pb.MsgStorageAppendResp {
					aw.metas = append(aw.metas, msgMeta{createStep: w.clock, typ: r.GetType(), to: r.GetTo(), inc: n.inc})
					continue
				}
				if i < len(afterMetas) {
					aw.metas = append(aw.metas, afterMetas[i])
				} else {
					w.inconclusive("async append at node %d carries more responses than tracked", n.id)
					aw.metas = append(aw.metas, msgMeta{createStep: w.clock, typ: r.GetType(), to: r.GetTo(), term: r.GetTerm(), index: r.GetIndex(), reject: r.GetReject(), inc: n.inc})
				}
			}
			n.appQ = append(n.appQ, aw)
			w.Stats["storage-appends"]++
		case raft.LocalApplyThread:
			n.aplQ = append(n.aplQ, m)
			n.aplOrig = append(n.aplOrig, cloneEnts(m.GetEntries()))
			w.Stats["storage-applies"]++
		default:
			var meta msgMeta
			if k < len(nowMetas) {
				meta = nowMetas[k]
			} else {
				w.inconclusive("async Ready at node %d carries more messages than tracked", n.id)
				meta = msgMeta{createStep: w.clock, typ: m.GetType(), to: m.GetTo(), term: m.GetTerm(), index: m.GetIndex(), reject: m.GetReject(), inc: n.inc}
			}
			k++
			w.sendWire(n, m, meta)
		}
	}
}

func hsOf(m *pb.Message) *pb.HardState {
	if m.Term == nil && m.Vote == nil && m.Commit == nil {
		return nil
	}
	return &pb.HardState{Term: new(m.GetTerm()), Vote: new(m.GetVote()), Commit: new(m.GetCommit())}
}

// doAppendThread performs one sub-step of the append thread on the head of
// its queue. whole=true does all sub-steps at once.
func (w *World) doAppendThread(n *node, whole bool) {
	aw := n.appQ[0]
	m := aw.msg
	sync := len(m.GetResponses()) > 0
	if !raft.IsEmptySnap(m.GetSnapshot()) {
		w.persistSnapshot(n, m.GetSnapshot(), m.GetEntries(), hsOf(m))
	} else {
		if !aw.written {
			w.checkHandedOut(n, m.GetEntries(), aw.orig, "entries to persist")
			w.persistEntries(n, m.GetEntries(), sync)
			aw.written = true
			if len(m.GetEntries()) > 0 && !whole {
				return
			}
		}
		w.persistHS(n, hsOf(m), sync)
	}
	if !n.up() {
		return
	}
	n.appQ = n.appQ[1:]
	w.logf("appendthread %d done, %d responses", n.id, len(m.GetResponses()))
	for i, r := range m.GetResponses() {
		if r.GetTo() == n.id {
			b, err := proto.Marshal(r)
			if err != nil {
				panic("harness: " + err.Error())
			}
			n.selfApp = append(n.selfApp, selfMsg{b, aw.metas[i]})
		} else {
			w.sendWire(n, r, aw.metas[i])
		}
	}
}

func (w *World) doApplyThread(n *node) {
	m := n.aplQ[0]
	n.aplQ = n.aplQ[1:]
	if len(n.aplOrig) > 0 {
		w.checkHandedOut(n, m.GetEntries(), n.aplOrig[0], "committed entries")
		n.aplOrig = n.aplOrig[1:]
	}
	w.applyEntries(n, m.GetEntries())
	if !n.up() {
		return
	}
	for _, r := range m.GetResponses() {
		b, err := proto.Marshal(r)
		if err != nil {
			panic("harness: " + err.Error())
		}
		n.selfApl = append(n.selfApl, selfMsg{data: b})
	}
}

func (w *World) doSelf(n *node, which uint64) {
	q := &n.selfApp
	if which == 1 {
		q = &n.selfApl
	}
	if len(*q) == 0 {
		return
	}
	sm := (*q)[0]
	*q = (*q)[1:]
	msg := &pb.Message{}
	must(proto.Unmarshal(sm.data, msg))
	w.logf("selfdeliver %d %s", n.id, raft.DescribeMessage(msg, nil))
	w.onSelfDeliver(n, msg, &sm.meta)
	if msg.GetType() == pb.MsgStorageAppendResp && msg.GetTerm() < n.st.Term {
		w.Stats["stale-append-acks"]++
		if msg.GetIndex() != 0 {
			w.Stats["stale-append-acks-with-entries"]++
			if n.st.Lead == 0 {
				w.Stats["stale-append-acks-with-entries-while-leaderless"]++
			}
			if msg.GetSnapshot() != nil {
				w.Stats["stale-append-acks-with-entries-and-snapshot"]++
			}
			// how close the run comes to the ABA case of newStorageAppendRespMsg:
			// the acknowledged write has since been overwritten in storage ...
			if st, err := n.ms.Term(msg.GetIndex()); err == nil && st != msg.GetLogTerm() {
				w.Stats["stale-append-acks-overwritten-in-storage"]++
				// ... and the unstable log holds the acknowledged (index, term) again
				if msg.GetIndex() >= n.st.UnstableOffset {
					if es := n.rn.VerifEntries(msg.GetIndex(), msg.GetIndex()); len(es) == 1 && es[0].Term == msg.GetLogTerm() {
						w.Stats["stale-append-acks-aba"]++
					}
				}
			}
		}
	}
	w.call(n, "selfstep", msg, func() { _ = n.rn.Step(msg) })
	if msg.GetType() == pb.MsgStorageAppendResp && msg.GetSnapshot() != nil {
		n.snapOutstanding = false
	}
}

// doCompact creates a snapshot at index i and compacts the log up to it.
func (w *World) doCompact(n *node, i uint64) {
	lo, hi := w.compactRange(n)
	if i <= lo || i > hi {
		return
	}
	st, ok := n.disk.StateAt[i]
	if !ok {
		return
	}
	n.disk.flush(len(n.disk.Buf))
	w.afterDiskWrite(n)
	_, cs := n.disk.confLookup(i)
	ok = w.guard(n, "storage-compact", func() {
		ch, _ := n.disk.chainAt(i)
		_, err := n.ms.CreateSnapshot(i, cs, snapData(st, ch))
		must(err)
		must(n.ms.Compact(i))
	})
	if !ok {
		return
	}
	n.disk.flush(len(n.disk.Buf))
	n.disk.compact(i, st, cs)
	w.logf("compact %d at %d (disk snapchain %x)", n.id, i, n.disk.SnapChain)
	w.Stats["compactions"]++
	// compaction is not a call into the RawNode, but it changes what the log
	// view returns: re-dump so that invariant I2 covers it
	w.call(n, "compact", nil, func() {})
}

// compactRange returns (lo, hi]: the legal compaction indexes right now. A
// compaction is a synced write, so buffered (unsynced) writes count as written.
func (w *World) compactRange(n *node) (uint64, uint64) {
	d := n.disk
	if !n.up() {
		return 0, 0
	}
	hs, _, _ := n.ms.InitialState()
	if hs == nil {
		return 0, 0
	}
	li, _ := n.ms.LastIndex()
	lo := d.SnapIndex
	hi := min(d.DurApplied, li, n.st.Applied, hs.GetCommit(), n.appIndex)
	return lo, hi
}

// holdMessages / checkHeldMessages: an application may keep Ready.Messages until its
// transport has sent them (Ready's contract: the slice is the application's until the
// next Ready is handed out). The harness keeps the slice of the latest Ready and
// verifies after every later call into the node that neither the slice's elements nor
// the messages they point to were changed by the library.
func (w *World) holdMessages(n *node, msgs []*pb.Message) {
	n.heldMsgs = msgs
	n.heldPtrs = append([]*pb.Message(nil), msgs...)
	n.heldBytes = n.heldBytes[:0]
	for _, m := range msgs {
		b, err := proto.MarshalOptions{Deterministic: true}.Marshal(m)
		must(err)
		n.heldBytes = append(n.heldBytes, b)
	}
	w.Stats["ready-message-slices-held"]++
}

func (w *World) checkHeldMessages(n *node, kind string) {
	if kind == "ready" {
		return // the caller replaces the held slice right after this call
	}
	for i, m := range n.heldMsgs {
		if m != n.heldPtrs[i] {
			w.violate("C20", []string{"C03", "C19"}, "node %d: slot %d of the Messages slice of the last Ready was overwritten by the library during %s (was %s, is %s)", n.id, i, raft.DescribeMessage(n.heldPtrs[i], nil), raft.DescribeMessage(m, nil), kind)
			n.heldMsgs, n.heldPtrs = nil, nil
			return
		}
	}
	w.Stats["held-message-slice-checks"]++
	if w.clock%16 != 0 {
		return
	}
	for i, m := range n.heldMsgs {
		b, err := proto.MarshalOptions{Deterministic: true}.Marshal(m)
		must(err)
		if !bytes.Equal(b, n.heldBytes[i]) {
			w.violate("C20", []string{"C03", "C19"}, "node %d: message %d of the last Ready (%s) was modified by the library during %s", n.id, i, raft.DescribeMessage(m, nil), kind)
			n.heldMsgs, n.heldPtrs = nil, nil
			return
		}
	}
}
