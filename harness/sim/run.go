package sim

import (
	"encoding/json"
	"fmt"
	"math/rand"
	"os"
	"runtime/debug"
	"strings"
)

// WorldResult is what one world reports to the campaign.
type WorldResult struct {
	Idx          int            `json:"idx"`
	Seed         int64          `json:"seed"`
	Profile      string         `json:"profile"`
	Viol         []Violation    `json:"viol,omitempty"`
	Stats        map[string]int `json:"stats"`
	Digest       string         `json:"digest"`
	Sig          uint64         `json:"sig"`
	Inconclusive []string       `json:"inconclusive,omitempty"`
	Steps        int            `json:"steps"`
	Samples      []any          `json:"samples,omitempty"`
	HarnessError string         `json:"harness_error,omitempty"`
	Replay       string         `json:"replay,omitempty"`
}

// TraceFile is the replay format.
type TraceFile struct {
	Cfg     WorldCfg    `json:"cfg"`
	Idx     int         `json:"idx"`
	Viol    []Violation `json:"violations"`
	Actions []Action    `json:"actions"`
}

// RunWorld generates and executes one world.
func RunWorld(cfg WorldCfg, keepLog bool) (w *World, herr string) {
	defer func() {
		if r := recover(); r != nil {
			if w != nil && len(w.Viol) > 0 {
				// the harness lost its footing after a violation (of another
				// property) had already been recorded: keep what was observed
				w.inconclusive("world aborted after a recorded violation: %v", r)
				return
			}
			herr = fmt.Sprintf("%v\n%s", r, debug.Stack())
		}
	}()
	w = NewWorld(cfg, keepLog)
	r := rand.New(rand.NewSource(cfg.Seed ^ 0x5DEECE66D))
	for w.step < cfg.Steps && !w.failed() {
		w.Exec(w.Gen(r))
	}
	if !w.failed() && !cfg.NoHeal {
		w.Exec(Action{K: "heal"})
	}
	if !w.failed() {
		w.finalChecks()
	}
	if !w.failed() {
		w.checkLinearizable()
	}
	return w, ""
}

// ReplayWorld re-executes a recorded action list.
func ReplayWorld(tf *TraceFile, keepLog bool, until int) (w *World, herr string) {
	defer func() {
		if r := recover(); r != nil {
			herr = fmt.Sprintf("%v\n%s", r, debug.Stack())
		}
	}()
	w = NewWorld(tf.Cfg, keepLog)
	for i, a := range tf.Actions {
		if until > 0 && i >= until {
			break
		}
		if w.failed() {
			break
		}
		w.Exec(a)
	}
	if !w.failed() && until <= 0 {
		w.finalChecks()
	}
	if !w.failed() && until <= 0 {
		w.checkLinearizable()
	}
	return w, ""
}

func (w *World) Result(idx int) *WorldResult {
	if len(w.Samples) == 0 {
		pick := map[string]int{}
		for _, k := range []string{"actions", "delivered", "crashes", "restarts", "elections-won", "leader-commit-advances", "applied", "readys-sync", "readys-async", "confchanges-applied", "snap-restored", "reads-served"} {
			pick[k] = w.Stats[k]
		}
		w.Samples = append(w.Samples, map[string]any{"world_summary": pick, "digest": w.Digest()[:16], "nodes": len(w.ids), "durable_membership": w.Cfg.Durable})
	}
	return &WorldResult{Idx: idx, Seed: w.Cfg.Seed, Profile: w.Cfg.Prof.Name, Viol: w.Viol, Stats: w.Stats, Digest: w.Digest(), Sig: w.sig,
		Inconclusive: w.Inconclusive, Steps: w.step, Samples: w.Samples}
}

// WriteTrace stores the action trace of a world.
func (w *World) WriteTrace(path string, idx int) error {
	tf := TraceFile{Cfg: w.Cfg, Idx: idx, Viol: w.Viol, Actions: w.Trace}
	b, err := json.Marshal(tf)
	if err != nil {
		return err
	}
	return os.WriteFile(path, b, 0o644)
}

// ReadTrace loads a replay file.
func ReadTrace(path string) (*TraceFile, error) {
	b, err := os.ReadFile(path)
	if err != nil {
		return nil, err
	}
	tf := &TraceFile{}
	if err := json.Unmarshal(b, tf); err != nil {
		return nil, err
	}
	return tf, nil
}

// Nontrivial implements the per-property coverage rule of DESIGN.md section 4.
func Nontrivial(prop string, s map[string]int) bool {
	switch prop {
	case "C01":
		return s["elections-won"] >= 2 && s["deliveries-compared"] > 0 && (s["crashes"] > 0 || s["truncations"] > 0 || s["snap-installed"] > 0 || s["confchanges-applied"] > 0)
	case "C02":
		return s["elections-won"] >= 1 && (s["contested-terms"] > 0 || s["elections-won-joint"] > 0 || s["elections-won-after-restart"] > 0 || s["transfer-campaigns"] > 0)
	case "C03":
		return s["truncations"] > 0 || s["entries-overwritten"] > 0 || s["stale-append-acks"] > 0
	case "C04":
		return s["leader-completeness-checked"] > 0 && (s["leader-elected-behind-committed"] > 0 || s["elections-won"] >= 2)
	case "C05":
		return s["vote-grants-on-wire"]+s["acks-on-wire"] > 0 && s["crashes"] > 0
	case "C06":
		return s["leader-commit-advances"] > 0 && (s["leader-commit-advances-joint"] > 0 || s["leader-commit-advances-by-confchange"] > 0 || s["follower-commit-advances-MsgApp"]+s["follower-commit-advances-MsgHeartbeat"]+s["follower-commit-advances-MsgSnap"] > 0)
	case "C07":
		return s["hardstates-exposed"] >= 3
	case "C08":
		return s["apply-batches"] > 0 && (s["restarts"] > 0 || s["snap-installed"] > 0 || s["storage-applies"] > 0)
	case "C09":
		return s["snap-restored"]+s["snap-fast-forward"]+s["snap-ignored-stale"]+s["snap-ignored-not-in-config"] > 0
	case "C10":
		return s["confchanges-applied"] > 0
	case "C11":
		return s["reads-served"] > 0
	case "C14":
		return s["delivered"] > 50
	case "C15":
		if s["heal-converged"] == 0 {
			return false
		}
		for k, v := range s {
			if strings.HasPrefix(k, "heal-start-") && v > 0 {
				return true
			}
		}
		return false
	case "C16":
		return s["stream-appends"] > 0 && (s["stream-window-full"] > 0 || s["proposals-refused-by-size-limit"] > 0 || s["msgapp-single-over-limit"] > 0)
	case "C17":
		return s["inlease-requests"] > 0 || s["prevote-campaigns"] > 0 || s["checkquorum-stepdowns"] > 0
	case "C19":
		return s["readys-sync"]+s["readys-async"] > 10
	case "C20":
		return s["msgprop-delivered"] > 0 || s["proposals-dropped"] > 0 || s["conf-proposals-neutralised"] > 0
	}
	return false
}

// NontrivialRule is the textual form of Nontrivial for the evidence file.
var NontrivialRule = map[string]string{
	"C01": "world with >=2 elections won, >=1 delivery compared against an earlier witness, and >=1 of {crash, log truncation, snapshot install, applied configuration change}",
	"C02": "world with >=1 election won and >=1 of {term contested by >=2 candidates, election won in a joint configuration, election won by a restarted node, forced (transfer) campaign}",
	"C03": "world in which some node truncated or overwrote entries, or a stale storage-append acknowledgement was delivered",
	"C04": "world with >=1 leader-completeness comparison and (a leader elected with a log shorter than the committed log, or >=2 elections)",
	"C05": "world with >=1 promise message (vote grant / append acknowledgement) checked against the sender's disk and >=1 crash",
	"C06": "world with >=1 leader commit advance and >=1 of {advance in a joint configuration, advance caused by ApplyConfChange, follower commit adopted from MsgApp/MsgHeartbeat/MsgSnap}",
	"C07": "world in which >=3 hard states were exposed",
	"C08": "world with >=1 batch handed to the application and >=1 of {restart, snapshot install, asynchronous apply message}",
	"C09": "world in which a MsgSnap was delivered and classified (restored, fast-forwarded, ignored as stale, ignored as not in configuration)",
	"C10": "world in which >=1 configuration change was applied",
	"C11": "world in which >=1 read state was served",
	"C14": "world with >50 delivered messages",
	"C15": "world whose fault-free suffix converged and started from >=1 adverse condition (no leader, two leaders, full inflight window, pending snapshot, pending transfer, uncommitted tail, node at higher term, queued append work, crashed node)",
	"C16": "world with >=1 streamed append and >=1 of {inflight window filled, proposal refused by the uncommitted-size limit, single entry larger than MaxSizePerMsg sent}",
	"C17": "world with >=1 in-lease vote request judged, >=1 pre-vote campaign, or >=1 CheckQuorum step-down",
	"C19": "world with >10 Ready structs digested",
	"C20": "world with >=1 forwarded proposal delivered, >=1 dropped proposal, or >=1 neutralised configuration proposal",
}
