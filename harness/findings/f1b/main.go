// Directed reproduction of known finding F1b (see /verif/known_findings.json):
// with AsyncStorageWrites a MsgVote leaves before the term bump and the log it
// claims are durable. Run: cd /verif/harness && go run ./findings/f1b
package main

import (
	"fmt"
	"io"
	"log"
	"math"

	"go.etcd.io/raft/v3"
	pb "go.etcd.io/raft/v3/raftpb"
	"google.golang.org/protobuf/proto"
)

var lg = &raft.DefaultLogger{Logger: log.New(io.Discard, "", 0)}

type node struct {
	id    uint64
	async bool
	rn    *raft.RawNode
	ms    *raft.MemoryStorage
	appQ  []*pb.Message // queued MsgStorageAppend (async only)
	out   []*pb.Message // messages handed to the network
	appl  []string
}

func start(id uint64, ms *raft.MemoryStorage, async bool, applied uint64) *node {
	rn, err := raft.NewRawNode(&raft.Config{ID: id, ElectionTick: 3, HeartbeatTick: 1, Storage: ms, MaxSizePerMsg: math.MaxUint64,
		MaxInflightMsgs: 256, AsyncStorageWrites: async, Applied: applied, Logger: lg})
	if err != nil {
		panic(err)
	}
	return &node{id: id, async: async, rn: rn, ms: ms}
}

func clone(m *pb.Message) *pb.Message { return proto.Clone(m).(*pb.Message) }

// ready takes all pending Readys; the async node only queues its storage work.
func (n *node) ready() {
	for n.rn.HasReady() {
		rd := n.rn.Ready()
		if !n.async {
			n.ms.Append(rd.Entries)
			if rd.HardState != nil {
				n.ms.SetHardState(rd.HardState)
			}
			for _, m := range rd.Messages {
				n.out = append(n.out, clone(m))
			}
			for _, e := range rd.CommittedEntries {
				n.appl = append(n.appl, fmt.Sprintf("%d/%d:%q", e.GetIndex(), e.GetTerm(), e.GetData()))
			}
			n.rn.Advance(rd)
			continue
		}
		for _, m := range rd.Messages {
			switch m.GetTo() {
			case raft.LocalAppendThread:
				n.appQ = append(n.appQ, m)
			case raft.LocalApplyThread:
				for _, e := range m.GetEntries() {
					n.appl = append(n.appl, fmt.Sprintf("%d/%d:%q", e.GetIndex(), e.GetTerm(), e.GetData()))
				}
				for _, r := range m.GetResponses() {
					n.rn.Step(r)
				}
			default:
				n.out = append(n.out, clone(m)) // may leave at once
			}
		}
	}
}

// appendThread processes all queued storage appends of an async node.
func (n *node) appendThread() {
	for len(n.appQ) > 0 {
		m := n.appQ[0]
		n.appQ = n.appQ[1:]
		n.ms.Append(m.GetEntries())
		if m.Term != nil {
			n.ms.SetHardState(&pb.HardState{Term: m.Term, Vote: m.Vote, Commit: m.Commit})
		}
		for _, r := range m.GetResponses() {
			if r.GetTo() == n.id {
				n.rn.Step(r)
			} else {
				n.out = append(n.out, clone(r))
			}
		}
	}
}

func main() {
	raft.SetLogger(lg)
	nodes := map[uint64]*node{}
	for id := uint64(1); id <= 3; id++ {
		ms := raft.NewMemoryStorage()
		ms.ApplySnapshot(&pb.Snapshot{Metadata: &pb.SnapshotMetadata{Index: new(uint64(2)), Term: new(uint64(1)), ConfState: &pb.ConfState{Voters: []uint64{1, 2, 3}}}})
		nodes[id] = start(id, ms, id == 2, 2)
	}
	// deliver everything in flight, running node 2's append thread only when asked to
	var held []*pb.Message
	pump := func(run2 bool, hold func(*pb.Message) bool) {
		for i := 0; i < 40; i++ {
			var msgs []*pb.Message
			for id := uint64(1); id <= 3; id++ {
				n := nodes[id]
				n.ready()
				if n.async && run2 {
					n.appendThread()
					n.ready()
				}
				msgs = append(msgs, n.out...)
				n.out = nil
			}
			if len(msgs) == 0 {
				return
			}
			for _, m := range msgs {
				if hold != nil && hold(m) {
					held = append(held, m)
					continue
				}
				nodes[m.GetTo()].rn.Step(m)
			}
		}
	}
	// 1. node 1 becomes leader of term 2 (the bootstrap snapshot is at term 1) and everything up to index 6 is durable everywhere
	nodes[1].rn.Campaign()
	pump(true, nil)
	for _, p := range []string{"a", "b", "c"} {
		nodes[1].rn.Propose([]byte(p))
		pump(true, nil)
	}
	li2, _ := nodes[2].ms.LastIndex()
	fmt.Printf("leader %d term %d; node 2 durable log ends at %d\n", nodes[1].rn.Status().Lead, nodes[1].rn.Status().GetTerm(), li2)
	// 2. three more entries: node 2 receives them but its append thread is stalled; nodes 1 and 3 commit them
	for _, p := range []string{"x", "y", "z"} {
		nodes[1].rn.Propose([]byte(p))
	}
	pump(false, nil)
	li2, _ = nodes[2].ms.LastIndex()
	fmt.Printf("node 1 commit %d, applied %v\nnode 2: durable last %d, queued appends %d (entries 7-9 only in memory)\n", nodes[1].rn.Status().GetCommit(), nodes[1].appl[len(nodes[1].appl)-3:], li2, len(nodes[2].appQ))
	// 3. node 2 campaigns: MsgVote (claiming its in-memory log) leaves at once, its term and vote are only queued
	nodes[2].rn.Campaign()
	nodes[2].ready()
	var votes []*pb.Message
	for _, m := range nodes[2].out {
		if m.GetType() == pb.MsgVote {
			votes = append(votes, m)
		}
	}
	nodes[2].out = nil
	fmt.Printf("node 2 sent %d MsgVote for term %d claiming last=(%d,%d); durable hard state still %s\n", len(votes), votes[0].GetTerm(), votes[0].GetIndex(), votes[0].GetLogTerm(), raft.DescribeHardState(hsOf(nodes[2].ms)))
	// 4. node 3 grants; the grant is delayed in the network
	for _, m := range votes {
		if m.GetTo() == 3 {
			nodes[3].rn.Step(m)
		}
	}
	nodes[3].ready()
	var grant *pb.Message
	for _, m := range nodes[3].out {
		if m.GetType() == pb.MsgVoteResp && !m.GetReject() {
			grant = m
		}
	}
	nodes[3].out = nil
	fmt.Printf("node 3 granted its vote for term %d to node 2: %v\n", grant.GetTerm(), grant != nil)
	// 5. node 2 crashes with its append queue unprocessed and restarts from its disk
	nodes[2] = start(2, nodes[2].ms, true, nodes[2].rn.Status().Applied)
	li2, _ = nodes[2].ms.LastIndex()
	fmt.Printf("node 2 restarted: term %d, log ends at %d\n", nodes[2].rn.Status().GetTerm(), li2)
	// 6. it campaigns again - for the same term, now with the shorter log - and its own vote becomes durable
	nodes[2].rn.Campaign()
	nodes[2].ready()
	for _, m := range nodes[2].out {
		if m.GetType() == pb.MsgVote {
			fmt.Printf("node 2 (second incarnation) sends MsgVote for term %d claiming last=(%d,%d)\n", m.GetTerm(), m.GetIndex(), m.GetLogTerm())
			break
		}
	}
	nodes[2].out = nil // its new requests are lost
	nodes[2].appendThread()
	// 7. the grant issued to the first incarnation arrives
	nodes[2].rn.Step(grant)
	fmt.Printf("node 2 is now %v of term %d (its log ended at index 6 when it campaigned; indexes 7-9 are committed)\n", nodes[2].rn.Status().RaftState, nodes[2].rn.Status().GetTerm())
	// 8. it replicates: node 1 holds committed entries at the indexes the new leader overwrites
	defer func() {
		if r := recover(); r != nil {
			fmt.Printf("node 1 panics: %v\n=> a leader was elected that lacks committed entries (leader completeness violated)\n", r)
		}
	}()
	pump(true, nil)
	fmt.Printf("node 1 applied %v\nnode 2 applied %v\n", nodes[1].appl, nodes[2].appl)
	for _, a := range nodes[2].appl {
		for _, b := range nodes[1].appl {
			if a[:2] == b[:2] && a != b {
				fmt.Printf("=> VIOLATION of C01/C04: index %s applied as %s on node 1 and as %s on node 2\n", a[:1], b, a)
			}
		}
	}
}

func hsOf(ms *raft.MemoryStorage) *pb.HardState {
	hs, _, _ := ms.InitialState()
	return hs
}
