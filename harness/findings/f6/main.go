package main

import (
	"fmt"
	"io"
	"log"
	"math"

	"go.etcd.io/raft/v3"
	pb "go.etcd.io/raft/v3/raftpb"
	"google.golang.org/protobuf/proto"
)

type node struct {
	id      uint64
	rn      *raft.RawNode
	ms      *raft.MemoryStorage
	bufHS   *pb.HardState // unsynced hard state (lost on crash)
	applied []string
	noSync  bool
}

var net []*pb.Message
var nodes = map[uint64]*node{}
var lg = &raft.DefaultLogger{Logger: log.New(io.Discard, "", 0)}

func mk(id uint64, ms *raft.MemoryStorage, applied uint64) *node {
	rn, err := raft.NewRawNode(&raft.Config{ID: id, ElectionTick: 3, HeartbeatTick: 1, Storage: ms, MaxSizePerMsg: math.MaxUint64, MaxInflightMsgs: 256, Applied: applied, Logger: lg})
	if err != nil {
		panic(err)
	}
	return &node{id: id, rn: rn, ms: ms}
}

func (n *node) ready() {
	for n.rn.HasReady() {
		rd := n.rn.Ready()
		n.ms.Append(rd.Entries)
		if rd.HardState != nil {
			if rd.MustSync || !n.noSync {
				n.ms.SetHardState(rd.HardState)
			} else {
				n.bufHS = rd.HardState // buffered, not fsynced
			}
		}
		if !raft.IsEmptySnap(rd.Snapshot) {
			n.ms.ApplySnapshot(rd.Snapshot)
		}
		for _, m := range rd.Messages {
			net = append(net, proto.Clone(m).(*pb.Message))
		}
		for _, e := range rd.CommittedEntries {
			n.applied = append(n.applied, fmt.Sprintf("%d/%d:%s:%q", e.GetIndex(), e.GetTerm(), e.GetType(), e.GetData()))
			if e.GetType() == pb.EntryConfChangeV2 {
				cc := &pb.ConfChangeV2{}
				proto.Unmarshal(e.GetData(), cc)
				cs := n.rn.ApplyConfChange(cc)
				fmt.Printf("  node %d applied conf change at %d -> %s\n", n.id, e.GetIndex(), raft.DescribeConfState(cs))
			}
		}
		n.rn.Advance(rd)
	}
}

func stabilize(ids ...uint64) {
	for i := 0; i < 30; i++ {
		for _, id := range ids {
			if n := nodes[id]; n != nil && n.rn != nil {
				n.ready()
			}
		}
		msgs := net
		net = nil
		for _, m := range msgs {
			ok := false
			for _, id := range ids {
				if id == m.GetTo() {
					ok = true
				}
			}
			if n := nodes[m.GetTo()]; ok && n != nil && n.rn != nil {
				n.rn.Step(m)
			} else if !ok {
				// dropped (partition)
			}
		}
	}
}

func main() {
	raft.SetLogger(lg)
	ms1 := raft.NewMemoryStorage()
	ms1.ApplySnapshot(&pb.Snapshot{Metadata: &pb.SnapshotMetadata{Index: new(uint64(2)), Term: new(uint64(1)), ConfState: &pb.ConfState{Voters: []uint64{1}}}})
	nodes[1] = mk(1, ms1, 2)
	nodes[1].noSync = true // follows MustSync: commit-only hard states are not fsynced
	ms2 := raft.NewMemoryStorage()
	ms2.ApplySnapshot(&pb.Snapshot{Metadata: &pb.SnapshotMetadata{Index: new(uint64(2)), Term: new(uint64(1)), ConfState: &pb.ConfState{Voters: []uint64{1}}}})
	nodes[2] = mk(2, ms2, 2)
	nodes[1].rn.Campaign()
	stabilize(1, 2)
	nodes[1].rn.ProposeConfChange(&pb.ConfChangeV2{Changes: []*pb.ConfChangeSingle{{Type: pb.ConfChangeAddNode.Enum(), NodeId: new(uint64(2))}}})
	stabilize(1, 2)
	nodes[1].rn.Propose([]byte("a"))
	stabilize(1, 2)
	nodes[1].rn.ProposeConfChange(&pb.ConfChangeV2{Changes: []*pb.ConfChangeSingle{{Type: pb.ConfChangeRemoveNode.Enum(), NodeId: new(uint64(1))}}})
	stabilize(1, 2)
	for i := 0; i < 3; i++ {
		nodes[1].rn.Tick()
		stabilize(1, 2)
	}
	hs, _, _ := ms1.InitialState()
	li, _ := ms1.LastIndex()
	fmt.Println("node1 durable hardstate:", raft.DescribeHardState(hs), "buffered:", raft.DescribeHardState(nodes[1].bufHS), "durable last index:", li)
	fmt.Println("node1 applied:", nodes[1].applied)
	fmt.Println("node2 applied:", nodes[2].applied)
	// crash node 1; restart with Applied unset (volatile state machine), ConfState of the snapshot ({1})
	net = nil
	n1 := mk(1, ms1, 0)
	nodes[1] = n1
	fmt.Println("node1 restarted:", n1.rn.Status().HardState, "config", n1.rn.Status().Config.Voters)
	// partition: each side on its own
	n1.rn.Campaign()
	stabilize(1)
	fmt.Println("node1 state:", n1.rn.Status().RaftState, "term", n1.rn.Status().GetTerm())
	n1.rn.Propose([]byte("x-from-stale-1"))
	stabilize(1)
	net = nil
	for i := 0; i < 10 && nodes[2].rn.Status().RaftState != raft.StateLeader; i++ {
		nodes[2].rn.Tick()
		stabilize(2)
	}
	fmt.Println("node2 state:", nodes[2].rn.Status().RaftState, "term", nodes[2].rn.Status().GetTerm())
	nodes[2].rn.Propose([]byte("y-from-2"))
	stabilize(2)
	fmt.Println("node1 applied:", n1.applied)
	fmt.Println("node2 applied:", nodes[2].applied)
}
