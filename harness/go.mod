module verif

go 1.26

toolchain go1.26.7

require (
	github.com/anishathalye/porcupine v1.3.0
	go.etcd.io/raft/v3 v3.0.0-00010101000000-000000000000
	google.golang.org/protobuf v1.36.12
)

replace go.etcd.io/raft/v3 => /repo
