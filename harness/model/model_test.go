package model

import (
	"math"
	"testing"
)

// Hand-computed cases for the reference models (the oracles of C02, C06, C10,
// C12, C13 depend on them).

func TestMajorityCommitted(t *testing.T) {
	cases := []struct {
		set   []uint64
		acked map[uint64]uint64
		want  uint64
	}{
		{nil, nil, math.MaxUint64},
		{[]uint64{1}, map[uint64]uint64{1: 7}, 7},
		{[]uint64{1}, nil, 0},
		{[]uint64{1, 2}, map[uint64]uint64{1: 7}, 0},
		{[]uint64{1, 2}, map[uint64]uint64{1: 7, 2: 5}, 5},
		{[]uint64{1, 2, 3}, map[uint64]uint64{1: 7, 2: 5}, 5},
		{[]uint64{1, 2, 3}, map[uint64]uint64{1: 7, 2: 5, 3: 9}, 7},
		{[]uint64{1, 2, 3, 4}, map[uint64]uint64{1: 7, 2: 5, 3: 9}, 5},
		{[]uint64{1, 2, 3, 4, 5}, map[uint64]uint64{1: 1, 2: 2, 3: 3, 4: 4, 5: 5}, 3},
		{[]uint64{1, 2, 3}, map[uint64]uint64{9: 100}, 0},
	}
	for i, c := range cases {
		if got := MajorityCommitted(c.set, c.acked); got != c.want {
			t.Errorf("case %d: got %d want %d", i, got, c.want)
		}
	}
	if got := JointCommitted([]uint64{1, 2, 3}, []uint64{3, 4, 5}, map[uint64]uint64{1: 5, 2: 5, 3: 4, 4: 2, 5: 2}); got != 2 {
		t.Errorf("joint: got %d want 2", got)
	}
	if got := JointCommitted([]uint64{1, 2, 3}, nil, map[uint64]uint64{1: 5, 2: 5}); got != 5 {
		t.Errorf("joint with empty outgoing: got %d want 5", got)
	}
}

func TestVotes(t *testing.T) {
	y, n := true, false
	cases := []struct {
		in, out []uint64
		votes   map[uint64]bool
		want    VoteResult
	}{
		{nil, nil, nil, VoteWon},
		{[]uint64{1}, nil, nil, VotePending},
		{[]uint64{1}, nil, map[uint64]bool{1: y}, VoteWon},
		{[]uint64{1}, nil, map[uint64]bool{1: n}, VoteLost},
		{[]uint64{1, 2}, nil, map[uint64]bool{1: y}, VotePending},
		{[]uint64{1, 2}, nil, map[uint64]bool{1: n}, VoteLost},
		{[]uint64{1, 2, 3}, nil, map[uint64]bool{1: y, 2: n}, VotePending},
		{[]uint64{1, 2, 3}, nil, map[uint64]bool{1: y, 2: y}, VoteWon},
		{[]uint64{1, 2, 3, 4}, nil, map[uint64]bool{1: y, 2: y, 3: n}, VotePending},
		{[]uint64{1, 2, 3, 4}, nil, map[uint64]bool{1: y, 2: n, 3: n}, VoteLost},
		{[]uint64{1, 2, 3}, []uint64{3, 4, 5}, map[uint64]bool{1: y, 2: y}, VotePending},
		{[]uint64{1, 2, 3}, []uint64{3, 4, 5}, map[uint64]bool{1: y, 2: y, 4: n, 5: n}, VoteLost},
		{[]uint64{1, 2, 3}, []uint64{3, 4, 5}, map[uint64]bool{1: y, 3: y, 4: y}, VoteWon},
		{[]uint64{1, 2, 3}, nil, map[uint64]bool{7: y, 8: y, 9: y}, VotePending},
	}
	for i, c := range cases {
		if got := JointVote(c.in, c.out, c.votes); got != c.want {
			t.Errorf("case %d: got %d want %d", i, got, c.want)
		}
	}
	if !HasQuorum(func(id uint64) bool { return id != 2 }, []uint64{1, 2, 3}, nil) {
		t.Error("HasQuorum: 2 of 3 is a quorum, empty set imposes nothing")
	}
	if HasQuorum(func(id uint64) bool { return id == 1 }, []uint64{1, 2, 3}, []uint64{1}) {
		t.Error("HasQuorum: 1 of 3 is not a quorum")
	}
}

func conf(t *testing.T, c Conf, want string) {
	t.Helper()
	if c.String() != want {
		t.Errorf("got %q want %q", c.String(), want)
	}
	if err := c.CheckInvariants(); err != nil {
		t.Errorf("%s: %v", c, err)
	}
}

func TestConfAlgebra(t *testing.T) {
	c := NewConf([]uint64{1}, nil, nil, nil, false)
	c2, err := c.Simple([]Single{{AddNode, 2}})
	if err != nil {
		t.Fatal(err)
	}
	conf(t, c2, "voters=(1 2)")
	if _, err := c2.Simple([]Single{{AddNode, 3}, {AddNode, 4}}); err == nil {
		t.Error("two voters added without joint consensus must be refused")
	}
	if _, err := c.Simple([]Single{{RemoveNode, 1}}); err == nil {
		t.Error("removing the last voter must be refused")
	}
	if _, err := c.LeaveJoint(); err == nil {
		t.Error("leaving a non-joint configuration must be refused")
	}
	// demote a voter while joint: staged as learner-next, becomes learner on leave
	c3 := NewConf([]uint64{1, 2, 3}, nil, nil, nil, false)
	j, err := c3.EnterJoint(true, []Single{{AddLearner, 3}, {AddNode, 4}})
	if err != nil {
		t.Fatal(err)
	}
	conf(t, j, "voters=(1 2 4)&&(1 2 3) learners_next=(3) autoleave")
	if _, err := j.EnterJoint(false, nil); err == nil {
		t.Error("entering joint while joint must be refused")
	}
	if _, err := j.Simple([]Single{{AddNode, 5}}); err == nil {
		t.Error("simple change while joint must be refused")
	}
	l, err := j.LeaveJoint()
	if err != nil {
		t.Fatal(err)
	}
	conf(t, l, "voters=(1 2 4) learners=(3)")
	// promote a learner, zero id and update are no-ops
	p, err := l.Apply(Change{Transition: TransAuto, Changes: []Single{{AddNode, 3}}})
	if err != nil {
		t.Fatal(err)
	}
	conf(t, p, "voters=(1 2 3 4)")
	q, err := p.Apply(Change{Transition: TransAuto, Changes: []Single{{UpdateNode, 9}}})
	if err != nil || !q.Equal(p) {
		t.Errorf("update node must change nothing: %v %v", q, err)
	}
	z, err := p.Apply(Change{Transition: TransAuto, Changes: []Single{{RemoveNode, 0}}})
	if err != nil || !z.Equal(p) {
		t.Errorf("zero id must change nothing: %v %v", z, err)
	}
	// classification of ConfChangeV2
	if leave, _, _ := (Change{Transition: TransAuto}).Kind(); !leave {
		t.Error("empty auto change is leave-joint")
	}
	if _, joint, auto := (Change{Transition: TransAuto, Changes: []Single{{AddNode, 1}, {AddNode, 2}}}).Kind(); !joint || !auto {
		t.Error("two changes with auto transition: joint with auto-leave")
	}
	if _, joint, auto := (Change{Transition: TransExplicit, Changes: []Single{{AddNode, 1}}}).Kind(); !joint || auto {
		t.Error("explicit transition: joint without auto-leave")
	}
	// a joint change may not remove every voter
	if _, err := c3.EnterJoint(false, []Single{{RemoveNode, 1}, {RemoveNode, 2}, {RemoveNode, 3}}); err == nil {
		t.Error("removing all voters through a joint change must be refused")
	}
	// the input is never modified
	conf(t, c3, "voters=(1 2 3)")
}
