// Package model holds small, independent reference models that the monitors
// compare the library against. Nothing here imports the library's quorum,
// tracker or confchange packages.
package model

import "math"

// VoteResult mirrors the three outcomes of a vote.
type VoteResult int

const (
	VotePending VoteResult = 1
	VoteLost    VoteResult = 2
	VoteWon     VoteResult = 3
)

// MajorityCommitted returns the largest index acknowledged by a strict
// majority of set (voters without an acknowledgement count as 0). An empty set
// imposes no constraint (MaxUint64).
//
// Definition-level implementation: try every candidate value.
func MajorityCommitted(set []uint64, acked map[uint64]uint64) uint64 {
	if len(set) == 0 {
		return math.MaxUint64
	}
	need := len(set)/2 + 1
	best := uint64(0)
	cands := []uint64{0}
	for _, id := range set {
		cands = append(cands, acked[id])
	}
	for _, c := range cands {
		n := 0
		for _, id := range set {
			if acked[id] >= c {
				n++
			}
		}
		if n >= need && c > best {
			best = c
		}
	}
	return best
}

// JointCommitted is the minimum over both sets.
func JointCommitted(in, out []uint64, acked map[uint64]uint64) uint64 {
	a, b := MajorityCommitted(in, acked), MajorityCommitted(out, acked)
	if a < b {
		return a
	}
	return b
}

// MajorityVote: Won iff a strict majority said yes; Lost iff that has become
// impossible; Pending otherwise. An empty set is Won.
func MajorityVote(set []uint64, votes map[uint64]bool) VoteResult {
	if len(set) == 0 {
		return VoteWon
	}
	yes, missing := 0, 0
	for _, id := range set {
		v, ok := votes[id]
		switch {
		case !ok:
			missing++
		case v:
			yes++
		}
	}
	need := len(set)/2 + 1
	if yes >= need {
		return VoteWon
	}
	if yes+missing < need {
		return VoteLost
	}
	return VotePending
}

// JointVote: Won iff won in every set, Lost iff lost in some set.
func JointVote(in, out []uint64, votes map[uint64]bool) VoteResult {
	a, b := MajorityVote(in, votes), MajorityVote(out, votes)
	if a == VoteLost || b == VoteLost {
		return VoteLost
	}
	if a == VoteWon && b == VoteWon {
		return VoteWon
	}
	return VotePending
}

// HasQuorum reports whether ok() holds for a strict majority of every
// non-empty set.
func HasQuorum(ok func(id uint64) bool, sets ...[]uint64) bool {
	for _, set := range sets {
		if len(set) == 0 {
			continue
		}
		n := 0
		for _, id := range set {
			if ok(id) {
				n++
			}
		}
		if n < len(set)/2+1 {
			return false
		}
	}
	return true
}
