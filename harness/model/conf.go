package model

import (
	"errors"
	"fmt"
	"sort"
	"strings"
)

// Change types (same numbering as raftpb.ConfChangeType).
const (
	AddNode    = 0
	RemoveNode = 1
	UpdateNode = 2
	AddLearner = 3
)

// Transition values (same numbering as raftpb.ConfChangeTransition).
const (
	TransAuto     = 0
	TransImplicit = 1
	TransExplicit = 2
)

// Single is one element of a configuration change.
type Single struct {
	Type int
	ID   uint64
}

// Change is a ConfChangeV2 without its context.
type Change struct {
	Transition int
	Changes    []Single
}

// Conf is a configuration as sets.
type Conf struct {
	V, O, L, LN map[uint64]bool
	AutoLeave   bool
}

func cp(m map[uint64]bool) map[uint64]bool {
	o := make(map[uint64]bool, len(m))
	for k := range m {
		o[k] = true
	}
	return o
}

// Clone returns a deep copy.
func (c Conf) Clone() Conf {
	return Conf{V: cp(c.V), O: cp(c.O), L: cp(c.L), LN: cp(c.LN), AutoLeave: c.AutoLeave}
}

// NewConf builds a configuration from id lists.
func NewConf(v, o, l, ln []uint64, autoLeave bool) Conf {
	c := Conf{V: map[uint64]bool{}, O: map[uint64]bool{}, L: map[uint64]bool{}, LN: map[uint64]bool{}, AutoLeave: autoLeave}
	for _, id := range v {
		c.V[id] = true
	}
	for _, id := range o {
		c.O[id] = true
	}
	for _, id := range l {
		c.L[id] = true
	}
	for _, id := range ln {
		c.LN[id] = true
	}
	return c
}

func ids(m map[uint64]bool) []uint64 {
	out := make([]uint64, 0, len(m))
	for k := range m {
		out = append(out, k)
	}
	sort.Slice(out, func(i, j int) bool { return out[i] < out[j] })
	return out
}

// Voters etc. return sorted id lists.
func (c Conf) Voters() []uint64       { return ids(c.V) }
func (c Conf) Outgoing() []uint64     { return ids(c.O) }
func (c Conf) Learners() []uint64     { return ids(c.L) }
func (c Conf) LearnersNext() []uint64 { return ids(c.LN) }

// Joint reports whether the configuration is joint.
func (c Conf) Joint() bool { return len(c.O) > 0 }

// Members returns every id that is part of the configuration.
func (c Conf) Members() map[uint64]bool {
	m := map[uint64]bool{}
	for _, s := range []map[uint64]bool{c.V, c.O, c.L, c.LN} {
		for id := range s {
			m[id] = true
		}
	}
	return m
}

// String is a canonical rendering (used as a map key and in reports).
func (c Conf) String() string {
	f := func(x []uint64) string {
		s := make([]string, len(x))
		for i, v := range x {
			s[i] = fmt.Sprint(v)
		}
		return strings.Join(s, " ")
	}
	s := "voters=(" + f(c.Voters()) + ")"
	if len(c.O) > 0 {
		s += "&&(" + f(c.Outgoing()) + ")"
	}
	if len(c.L) > 0 {
		s += " learners=(" + f(c.Learners()) + ")"
	}
	if len(c.LN) > 0 {
		s += " learners_next=(" + f(c.LearnersNext()) + ")"
	}
	if c.AutoLeave {
		s += " autoleave"
	}
	return s
}

// Equal compares two configurations.
func (c Conf) Equal(d Conf) bool { return c.String() == d.String() }

func (c *Conf) member(id uint64) bool { return c.V[id] || c.O[id] || c.L[id] || c.LN[id] }

func (c *Conf) remove(id uint64) {
	delete(c.V, id)
	delete(c.L, id)
	delete(c.LN, id)
}

func (c *Conf) applySingles(chs []Single) error {
	for _, ch := range chs {
		if ch.ID == 0 {
			continue
		}
		switch ch.Type {
		case AddNode:
			delete(c.L, ch.ID)
			delete(c.LN, ch.ID)
			c.V[ch.ID] = true
		case AddLearner:
			if !c.member(ch.ID) {
				c.L[ch.ID] = true
				break
			}
			if c.L[ch.ID] {
				break
			}
			c.remove(ch.ID)
			if c.O[ch.ID] {
				c.LN[ch.ID] = true
			} else {
				c.L[ch.ID] = true
			}
		case RemoveNode:
			if c.member(ch.ID) {
				c.remove(ch.ID)
			}
		case UpdateNode:
		default:
			return fmt.Errorf("unexpected conf type %d", ch.Type)
		}
	}
	if len(c.V) == 0 {
		return errors.New("removed all voters")
	}
	return nil
}

// Kind classifies a change the way ConfChangeV2 does.
func (ch Change) Kind() (leave, joint, autoLeave bool) {
	if ch.Transition == TransAuto && len(ch.Changes) == 0 {
		return true, false, false
	}
	if ch.Transition != TransAuto || len(ch.Changes) > 1 {
		return false, true, ch.Transition == TransAuto || ch.Transition == TransImplicit
	}
	return false, false, false
}

// Apply returns the configuration after the change, or an error if the change
// is not valid on c (c is never modified). The change is classified the way
// ConfChangeV2 does it.
func (c Conf) Apply(ch Change) (Conf, error) {
	if ch.Transition < TransAuto || ch.Transition > TransExplicit {
		return Conf{}, fmt.Errorf("unknown transition %d", ch.Transition)
	}
	leave, joint, autoLeave := ch.Kind()
	switch {
	case leave:
		return c.LeaveJoint()
	case joint:
		return c.EnterJoint(autoLeave, ch.Changes)
	default:
		return c.Simple(ch.Changes)
	}
}

// LeaveJoint leaves a joint configuration.
func (c Conf) LeaveJoint() (Conf, error) {
	if !c.Joint() {
		return Conf{}, errors.New("can't leave a non-joint config")
	}
	n := c.Clone()
	for id := range n.LN {
		n.L[id] = true
	}
	n.LN = map[uint64]bool{}
	n.O = map[uint64]bool{}
	n.AutoLeave = false
	return n, nil
}

// EnterJoint enters a joint configuration and applies the changes to the
// incoming side.
func (c Conf) EnterJoint(autoLeave bool, chs []Single) (Conf, error) {
	if c.Joint() {
		return Conf{}, errors.New("config is already joint")
	}
	if len(c.V) == 0 {
		return Conf{}, errors.New("can't make a zero-voter config joint")
	}
	n := c.Clone()
	n.O = cp(c.V)
	if err := n.applySingles(chs); err != nil {
		return Conf{}, err
	}
	n.AutoLeave = autoLeave
	return n, nil
}

// Simple applies changes that alter the voter set by at most one.
func (c Conf) Simple(chs []Single) (Conf, error) {
	if c.Joint() {
		return Conf{}, errors.New("can't apply simple config change in joint config")
	}
	n := c.Clone()
	if err := n.applySingles(chs); err != nil {
		return Conf{}, err
	}
	d := 0
	for id := range c.V {
		if !n.V[id] {
			d++
		}
	}
	for id := range n.V {
		if !c.V[id] {
			d++
		}
	}
	if d > 1 {
		return Conf{}, errors.New("more than one voter changed without entering joint config")
	}
	return n, nil
}

// CheckInvariants verifies the structural invariants stated in property C13.
func (c Conf) CheckInvariants() error {
	for id := range c.L {
		if c.V[id] || c.O[id] {
			return fmt.Errorf("%d is learner and voter", id)
		}
	}
	for id := range c.LN {
		if !c.O[id] {
			return fmt.Errorf("%d in LearnersNext but not outgoing voter", id)
		}
		if c.L[id] {
			return fmt.Errorf("%d in LearnersNext and Learners", id)
		}
	}
	if len(c.V) == 0 {
		return errors.New("no voters")
	}
	if !c.Joint() && (len(c.LN) > 0 || c.AutoLeave) {
		return errors.New("LearnersNext/AutoLeave set in non-joint config")
	}
	return nil
}
